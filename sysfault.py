#!/usr/bin/env python3
"""Syscall-level fault engine: the crate's path-based APIs on real files, under strace fault injection.

One execution = `sysdrv <scenario args>` (sim/src/bin/sysdrv.rs: ONE call of create()+write+finalize,
metadata::update(path), open(path)+read, verify(path)...; deterministic from its arguments, single
thread) run under

    strace -f -P <file> -e trace=<kinds> -e inject=<syscall>:<error=E|signal=SIGKILL>:when=<n>[+]

so that exactly the n-th write / read / lseek / openat ON THAT FILE fails (once, or from n on), is
interrupted (EINTR), or the process is killed on entering it. A fault-free twin under the same trace
gives the number N of such calls; every n <= N is enumerated for every fault kind. The fault schedule
(scenario args + inject spec) is the whole replay file.

Used as a supplement of C13 (success only when the bytes reached the file; read errors propagated; no
panic), C14 (process killed before finalize: the file's complete frames decode exactly), C07 (EINTR on the
real read path) and C10 (update(path) on real files). `./check` merges the result into the property's
evidence; `./check replay <file>` replays one execution.
"""
import hashlib, json, os, re, shutil, subprocess, sys, time
from concurrent.futures import ThreadPoolExecutor

ROOT = os.path.dirname(os.path.abspath(__file__))
SIM = os.path.join(ROOT, "sim")
REPLAYS = os.path.join(ROOT, "replays")
WORKERS = int(os.environ.get("VERIF_WORKERS", "16"))
SCRATCH = os.path.join(SIM, "target", "tmp", "sysfault")
KINDS = "openat,read,write,lseek,close,ftruncate,fsync,fdatasync,rename,unlink"


def configure(sim_dir):
    """called by ./check: the simulator crate directory in use (differs under VERIF_REPO)"""
    global SIM, SCRATCH
    SIM = sim_dir
    SCRATCH = os.path.join(SIM, "target", "tmp", "sysfault")


def drv():
    return os.path.join(SIM, "target", "release", "sysdrv")


def flacsim():
    return os.path.join(SIM, "target", "release", "flacsim")


def sh(cmd, timeout=120):
    try:
        r = subprocess.run(cmd, capture_output=True, text=True, timeout=timeout)
        return r.returncode, r.stdout, r.stderr
    except subprocess.TimeoutExpired:
        return -999, "", "TIMEOUT"


def result_line(out):
    for l in out.splitlines():
        if l.startswith("RESULT "):
            return l[7:].strip()
    return None


def run_traced(args, path, inject=None, log=None):
    """runs sysdrv under strace restricted to `path`; returns (rc, stdout, stderr, syscall log lines)"""
    log = log or (path + ".strace")
    cmd = ["strace", "-f", "-P", path, "-o", log, "-e", "trace=" + KINDS]
    if inject:
        cmd += ["-e", "inject=" + inject]
    cmd += [drv()] + args
    rc, out, err = sh(cmd)
    try:
        lines = open(log, errors="replace").read().splitlines()
    except OSError:
        lines = []
    try:
        os.remove(log)
    except OSError:
        pass
    return rc, out, err, lines


def count_calls(lines):
    c = {}
    for l in lines:
        m = re.match(r"\d+\s+(\w+)\(", l)
        if m:
            c[m.group(1)] = c.get(m.group(1), 0) + 1
    return c


def md5_file(p):
    try:
        return hashlib.md5(open(p, "rb").read()).hexdigest()
    except OSError:
        return None


def framesinfo(p):
    rc, out, _ = sh([flacsim(), "framesinfo", p])
    try:
        return json.loads(out.strip().splitlines()[-1])
    except Exception:
        return {"ok": False, "error": "framesinfo failed"}


def died(rc, err, injected_kill=False):
    """classifies an abnormal end of the driver; None if it ended normally"""
    if rc == -999:
        return "hang", "driver did not finish within 120 s"
    if rc == 101:
        m = re.search(r"panicked at ([^\n]+)\n([^\n]*)", err)
        return "panic", (m.group(1) + ": " + m.group(2)) if m else err[-300:]
    if rc in (134, -6) or "SIGABRT" in err:
        return "abort", err[-300:]
    if rc in (137, -9) and injected_kill:
        return None
    if rc not in (0,):
        return "abnormal-exit", f"rc={rc} {err[-200:]}"
    return None


# --------------------------------------------------------------------------------------------------
# one evaluation = (scenario, fault) -> None | (class, message)

class Scn:
    """a scenario instance: prepared reference data + how to run one faulted execution"""

    def __init__(self, name, prop, args, workdir):
        self.name, self.prop, self.args, self.dir = name, prop, args, workdir
        self.ref = {}

    def describe(self):
        return f"{self.name} {' '.join(map(str, self.args))}"


def stale(path, n=300000):
    """something older and longer is already at the path (the driver opens with Options::overwrite)"""
    with open(path, "wb") as f:
        f.write(b"\x5a" * n)


def prep_encode(s):
    seed = s.args[0]
    p = os.path.join(s.dir, "ref.flac")
    stale(p)
    rc, out, err, lines = run_traced(["encode", p, str(seed)], p)
    if rc != 0 or result_line(out) != "ok":
        return f"fault-free encode failed: rc={rc} {out[-200:]} {err[-200:]}"
    # the same encode through new(Cursor): the path-based constructor over an existing longer file must
    # give the same bytes
    pm = os.path.join(s.dir, "mem.flac")
    rc2, out2, err2 = sh([drv(), "encode", pm, str(seed), "mem"])
    if result_line(out2) != "ok":
        return f"in-memory twin failed: {out2[-200:]} {err2[-200:]}"
    if md5_file(pm) != md5_file(p):
        s.ref["plain_violation"] = ("path-result-differs", f"{s.describe()}: create(path) over an existing longer file left {os.path.getsize(p)} bytes, the same encode through new(Cursor) gives {os.path.getsize(pm)} bytes (identical prefix: {open(p,'rb').read()[:os.path.getsize(pm)] == open(pm,'rb').read()})")
        shutil.copy(pm, p)
    s.ref["bytes_md5"] = md5_file(p)
    s.ref["bytes"] = open(p, "rb").read()
    s.ref["frames"] = framesinfo(p)   # where the frames are, from the finished fault-free twin
    s.ref["calls"] = count_calls(lines)
    s.ref["params"] = next((l for l in out.splitlines() if l.startswith("PARAMS")), "")
    rc, out, _ = sh([drv(), "pcm", str(seed)])
    s.ref["pcm"] = result_line(out)
    s.ref["prefix"] = {}
    for l in out.splitlines():
        m = re.match(r"PREFIX blocks=(\d+) samples=(\d+) md5=(\w+)", l)
        if m:
            s.ref["prefix"][int(m.group(2))] = m.group(3)
    rc, out, _ = sh([drv(), "decode", p, "sample"])
    if result_line(out) != s.ref["pcm"]:
        return f"fault-free encode does not decode to its input: {result_line(out)} vs {s.ref['pcm']}"
    # number of write calls issued before finalize begins
    p2 = os.path.join(s.dir, "stop.flac")
    rc, out, err, lines = run_traced(["encode", p2, str(seed), "stop"], p2)
    if result_line(out) != "stopped":
        return f"stop variant failed: {out[-200:]}"
    s.ref["writes_before_finalize"] = count_calls(lines).get("write", 0)
    os.remove(p2)
    return None


def eval_encode(s, tag, inject):
    p = os.path.join(s.dir, f"x{tag}.flac")
    kill = "SIGKILL" in inject
    if not kill:
        stale(p)
    else:
        # C14: the finished twin of this very encode is already at the path. The driver opens with
        # Options::overwrite, which must empty it: if old frames survived behind the new ones they would
        # line up with them exactly and decode as audio this run never wrote.
        with open(p, "wb") as f:
            f.write(s.ref["bytes"])
    rc, out, err, lines = run_traced(["encode", p, str(s.args[0])], p, inject)
    # bytes this process really handed to the kernel before it died (the encoder only appends before finalize)
    written = sum(int(m.group(1)) for m in (re.search(r"\bwrite\(.*\)\s+=\s+(\d+)\s*$", l) for l in lines) if m)
    res = result_line(out)
    try:
        d = died(rc, err, kill)
        if d:
            return d[0], f"{s.describe()} under {inject}: {d[1]}"
        if kill:
            if rc == 0:
                return None  # the n-th call did not happen in this execution
            # C14: the file as the killed process left it. Which frames are complete comes from the
            # finished twin's frame map (finalize neither moves nor rewrites frames), not from the
            # unfinished file's own header.
            fi = framesinfo(p)
            try:
                left = open(p, "rb").read()
            except OSError:
                left = b""
            rf = s.ref["frames"]
            if fi.get("ok") and rf.get("ok") and fi.get("audio_start") == rf["audio_start"]:
                k, n = 0, 0
                for end, smp in zip(rf["frame_ends"], rf["frame_samples"]):
                    if end <= len(left) and end <= written and left[rf["audio_start"]:end] == s.ref["bytes"][rf["audio_start"]:end]:
                        k, n = k + 1, n + smp
                    else:
                        break
                if n in s.ref["prefix"]:
                    fi = dict(fi, frames=k, samples=n, pcm_md5=s.ref["prefix"][n])
            rc2, out2, err2 = sh([drv(), "decode", p, "sample"])
            d2 = died(rc2, err2)
            if d2:
                return d2[0], f"{s.describe()} killed by {inject}; decoding the file left behind: {d2[1]}"
            r2 = result_line(out2) or ""
            m = re.search(r"n=(\d+) md5=(\w+)", r2)
            if not fi.get("ok"):
                # not even the metadata is complete: nothing may be delivered
                if m and int(m.group(1)) > 0:
                    return "fabricated", f"{s.describe()} killed by {inject}: decoder delivered {m.group(1)} samples from a file whose metadata is incomplete"
                return None
            if not m:
                if fi["samples"] == 0:
                    return None
                return "frames-lost", f"{s.describe()} killed by {inject}: {fi['frames']} complete frames on disk, decoder: {r2}"
            n, md5 = int(m.group(1)), m.group(2)
            if n != fi["samples"] or md5 != fi["pcm_md5"]:
                cls = "frames-lost" if n < fi["samples"] else "fabricated"
                return cls, (f"{s.describe()} killed by {inject}: file holds {fi['frames']} complete frames = {fi['samples']} samples "
                             f"(pcm md5 {fi['pcm_md5']}), decoder recovered {n} samples (md5 {md5}) then {r2[:80]}")
            if s.ref["prefix"].get(n) not in (md5,) and n not in (0,):
                return "fabricated", f"{s.describe()} killed by {inject}: the {n} recovered samples are not a whole-block prefix of the PCM written"
            return None
        if res is None:
            return "HARNESS", f"{s.describe()} under {inject}: no RESULT line (rc={rc}) {err[-200:]}"
        if res == "ok" and md5_file(p) != s.ref["bytes_md5"]:
            return "ok-but-incomplete", f"{s.describe()} under {inject}: finalize reported success but the file differs from the fault-free result ({os.path.getsize(p)} bytes)"
        return None
    finally:
        try:
            os.remove(p)
        except OSError:
            pass


def prep_update(s):
    pad, frames, kind = s.args
    base = os.path.join(s.dir, "base.flac")
    rc, out, err = sh([drv(), "mkfile", base, str(pad), str(frames)])
    if rc != 0 or not (result_line(out) or "").startswith("ok"):
        return f"mkfile failed: {out[-200:]} {err[-200:]}"
    s.ref["pcm"] = result_line(out)
    s.ref["base_md5"] = md5_file(base)
    s.ref["base_info"] = framesinfo(base)
    p = os.path.join(s.dir, "ref.flac")
    shutil.copy(base, p)
    rc, out, err, lines = run_traced(["update", p, kind], p)
    s.ref["result"] = result_line(out)
    s.ref["bytes_md5"] = md5_file(p)
    s.ref["calls"] = count_calls(lines)
    fi = framesinfo(p)
    d = died(rc, err)
    if d:
        return f"fault-free update died: {d}"
    # C10 on the real file (no fault): the audio is untouched, the result decodes to the same PCM
    if kind == "callback_error":
        if s.ref["bytes_md5"] != s.ref["base_md5"] or not (s.ref["result"] or "").startswith("err"):
            s.ref["plain_violation"] = ("original-touched", f"update({kind}) on a real file: callback failed ({s.ref['result']}) but the file changed")
    else:
        if not (s.ref["result"] or "").startswith("ok"):
            return f"fault-free update({kind}) failed: {s.ref['result']}"
        if not fi.get("ok") or fi["audio_md5"] != s.ref["base_info"]["audio_md5"] or fi["pcm_md5"] != s.ref["base_info"]["pcm_md5"] or not fi["valid"]:
            s.ref["plain_violation"] = ("audio-disturbed", f"update({kind}) on a real file reported {s.ref['result']} but the frames changed or the file is no longer valid: {fi}")
        if s.ref["result"] == "ok inplace" and fi.get("len") != s.ref["base_info"]["len"]:
            s.ref["plain_violation"] = ("size-changed", f"update({kind}) reported in place but the length went from {s.ref['base_info']['len']} to {fi.get('len')}")
    return None


def eval_update(s, tag, inject):
    p = os.path.join(s.dir, f"x{tag}.flac")
    shutil.copy(os.path.join(s.dir, "base.flac"), p)
    rc, out, err, _ = run_traced(["update", p, s.args[2]], p, inject)
    res = result_line(out)
    try:
        d = died(rc, err)
        if d:
            return d[0], f"{s.describe()} under {inject}: {d[1]}"
        if res is None:
            return "HARNESS", f"{s.describe()} under {inject}: no RESULT line (rc={rc}) {err[-200:]}"
        if res.startswith("ok") and md5_file(p) != s.ref["bytes_md5"]:
            return "ok-but-incomplete", f"{s.describe()} under {inject}: update reported '{res}' but the file differs from the fault-free result"
        return None
    finally:
        try:
            os.remove(p)
        except OSError:
            pass


def prep_read(s):
    seed = s.args[0]
    p = os.path.join(s.dir, "in.flac")
    rc, out, err = sh([drv(), "encode", p, str(seed)])
    if result_line(out) != "ok":
        return f"cannot make input: {out[-200:]}"
    rc, out, err, lines = run_traced([s.args[1], p] + list(s.args[2:]), p)
    s.ref["result"] = result_line(out)
    s.ref["calls"] = count_calls(lines)
    if s.args[1] == "seekcheck" and (s.ref["result"] or "").startswith("err"):
        s.ref["plain_violation"] = ("path-seek-failed", f"{s.describe()}: on a reader from open(path): {s.ref['result']}")
        return None
    if not (s.ref["result"] or "").startswith("ok"):
        return f"fault-free {s.args[1]} failed: {s.ref['result']} {err[-200:]}"
    if s.args[1] == "decode":
        rc, out, _ = sh([drv(), "pcm", str(seed)])
        if result_line(out) != s.ref["result"]:
            return f"fault-free decode differs from the PCM written: {s.ref['result']} vs {result_line(out)}"
    return None


def eval_read(s, tag, inject):
    p = os.path.join(s.dir, "in.flac")
    rc, out, err, _ = run_traced([s.args[1], p] + list(s.args[2:]), p, inject, log=os.path.join(s.dir, f"l{tag}.strace"))
    res = result_line(out)
    d = died(rc, err)
    if d:
        return d[0], f"{s.describe()} under {inject}: {d[1]}"
    if res is None:
        return "HARNESS", f"{s.describe()} under {inject}: no RESULT line (rc={rc}) {err[-200:]}"
    if res.startswith("ok") and res != s.ref["result"]:
        cls = "read-error-swallowed" if "EINTR" not in inject else "delivery-mismatch"
        return cls, f"{s.describe()} under {inject}: reported '{res}', the fault-free result is '{s.ref['result']}'"
    return None


PREP = {"encode": prep_encode, "update": prep_update, "read": prep_read}
EVAL = {"encode": eval_encode, "update": eval_update, "read": eval_read}


def faults_for(s, prop):
    """the fault schedule of one scenario: list of (kind label, inject spec)"""
    c = s.ref["calls"]
    out = []
    if s.name == "encode":
        if prop == "C14":
            for n in range(1, s.ref["writes_before_finalize"] + 2):
                out.append(("kill-at-write", f"write:signal=SIGKILL:when={n}"))
            return out
        for n in range(1, c.get("write", 0) + 1):
            out.append(("write-EIO-once", f"write:error=EIO:when={n}"))
            out.append(("write-ENOSPC-from", f"write:error=ENOSPC:when={n}+"))
            out.append(("write-EINTR-once", f"write:error=EINTR:when={n}"))
        for n in range(1, c.get("lseek", 0) + 1):
            out.append(("lseek-EIO-once", f"lseek:error=EIO:when={n}"))
        out.append(("openat-EACCES", "openat:error=EACCES:when=1"))
    elif s.name == "update":
        for sc, errs in (("write", ["EIO", "ENOSPC", "EINTR"]), ("read", ["EIO", "EINTR"]), ("lseek", ["EIO"]), ("openat", ["EACCES"])):
            for n in range(1, c.get(sc, 0) + 1):
                for e in errs:
                    out.append((f"{sc}-{e}-once", f"{sc}:error={e}:when={n}"))
        for n in range(1, c.get("write", 0) + 1):
            out.append(("write-ENOSPC-from", f"write:error=ENOSPC:when={n}+"))
    else:
        errs = ["EINTR"] if prop == "C07" else ["EIO"]
        for n in range(1, c.get("read", 0) + 1):
            for e in errs:
                out.append((f"read-{e}-once", f"read:error={e}:when={n}"))
        if prop != "C07":
            for n in range(1, c.get("lseek", 0) + 1):
                out.append(("lseek-EIO-once", f"lseek:error=EIO:when={n}"))
            for n in range(1, c.get("read", 0) + 1, 3):
                out.append(("read-EIO-from", f"read:error=EIO:when={n}+"))
            out.append(("openat-EACCES", "openat:error=EACCES:when=1"))
    return out


def scenarios(prop, tier, seed):
    thorough = tier == "thorough"
    n_enc = 160 if thorough else 6
    seeds = [seed * 1000 + k for k in range(n_enc)]
    out = []
    if prop in ("C13", "C14"):
        out += [("encode", [s]) for s in seeds]
    if prop == "C08":
        out += [("encode", [s]) for s in seeds[: (60 if thorough else 6)]]
    if prop == "C13":
        kinds = ["grow_small", "grow_big", "shrink", "add_picture", "drop_padding"]
        pads = [300, "none", 4096] if thorough else [300]
        for k in kinds:
            for pd in pads:
                # 3000 PCM frames: the rebuilt file exceeds a BufWriter's 8 KiB; 300: it fits into one
                # (whatever a buffering sink holds back is only written when it is dropped)
                for n in (3000, 300):
                    out.append(("update", [pd, n, k]))
        fronts = ["sample", "byte", "channel", "sample_fill"] if thorough else ["sample", "byte"]
        for s in seeds[: (40 if thorough else 2)]:
            for f in fronts:
                out.append(("read", [s, "decode", f]))
            out.append(("read", [s, "verify"]))
            out.append(("read", [s, "blocks"]))
            out.append(("read", [s, "frames"]))
    if prop == "C07":
        fronts = ["sample", "byte", "channel", "sample_fill"]
        for s in seeds[: (60 if thorough else 3)]:
            for f in fronts:
                out.append(("read", [s, "decode", f]))
    if prop == "C06":
        # fault-free: a reader obtained from open(path) must seek like one made with new_seekable(Cursor)
        for s in seeds[: (40 if thorough else 4)]:
            for f in ["sample", "byte", "channel"]:
                out.append(("read", [s, "seekcheck", f]))
    if prop == "C10":
        kinds = ["grow_small", "grow_big", "shrink", "add_picture", "drop_padding", "callback_error"]
        pads = [300, "none", 4096, 12, 0] if thorough else [300, "none"]
        for k in kinds:
            for pd in pads:
                for n in (3000, 300):
                    out.append(("update", [pd, n, k]))
    return out


def save_replay(prop, tier, seed, name, args, inject, cls, msg):
    os.makedirs(REPLAYS, exist_ok=True)
    tag = re.sub(r"[^A-Za-z0-9_.-]+", "_", f"{name}-{'-'.join(map(str, args))}-{inject or 'nofault'}")[:90]
    path = os.path.join(REPLAYS, f"{prop}-sysfault-{re.sub(r'[^A-Za-z0-9]+', '_', cls)}-{tag}.json")
    json.dump({"engine": "sysfault", "property": prop, "tier": tier, "seed": seed, "scenario": name, "args": args, "inject": inject,
               "class": cls, "message": msg,
               "how": "sysdrv <scenario args> under strace -f -P <file> -e inject=<inject>; ./check replay <this file>"}, open(path, "w"), indent=1)
    return path


def run_one(prop, name, args, inject_list, workdir):
    """prepares one scenario and evaluates the given faults (all of its schedule if None)"""
    os.makedirs(workdir, exist_ok=True)
    s = Scn(name, prop, args, workdir)
    err = PREP[name](s)
    if err:
        return s, [("HARNESS", f"{s.describe()}: {err}", None)], {}, 0
    faults = faults_for(s, prop) if inject_list is None else inject_list
    fired, viols, evals = {}, [], 0
    if name == "update" and prop == "C10":
        evals += 1
        if s.ref.get("plain_violation"):
            viols.append((s.ref["plain_violation"][0], s.ref["plain_violation"][1], None))
        faults = [] if inject_list is None else faults
    if name == "read" and prop == "C06":
        evals += 1
        if s.ref.get("plain_violation"):
            viols.append((s.ref["plain_violation"][0], s.ref["plain_violation"][1], None))
        faults = [] if inject_list is None else faults
    if name == "encode" and prop in ("C08", "C13"):
        evals += 1
        if s.ref.get("plain_violation"):
            viols.append((s.ref["plain_violation"][0], s.ref["plain_violation"][1], None))
        if prop == "C08":
            faults = [] if inject_list is None else faults
    for i, (kind, inject) in enumerate(faults):
        r = EVAL[name](s, i, inject)
        evals += 1
        fired[kind] = fired.get(kind, 0) + 1
        if r:
            viols.append((r[0], r[1], inject))
    return s, viols, fired, evals


def run(prop, tier, seed):
    """returns a dict for ./check to merge; never raises on a violation"""
    t0 = time.time()
    shutil.rmtree(SCRATCH, ignore_errors=True)
    os.makedirs(SCRATCH, exist_ok=True)
    # is syscall tampering available here at all? (ptrace may be forbidden in some sandboxes)
    probe = os.path.join(SCRATCH, "probe")
    rc, out, err = sh(["strace", "-f", "-P", probe, "-o", probe + ".log", "-e", "trace=write", "-e", "inject=write:error=EIO:when=1",
                       "sh", "-c", f"echo x > {probe}; echo rc=$?"])
    if rc != 0 or "rc=0" in out:
        shutil.rmtree(SCRATCH, ignore_errors=True)
        return {"engine": "sysfault", "skipped": f"strace fault injection is not available here (rc={rc}, {err[-200:]!r}); nothing was executed",
                "scenarios": 0, "evaluations": 0, "faults_fired": {}, "violations": [], "harness_errors": [], "samples": [], "wall_s": 0.0}
    scns = scenarios(prop, tier, seed)

    def job(i_sc):
        i, (name, args) = i_sc
        return run_one(prop, name, args, None, os.path.join(SCRATCH, f"{prop}-{i}"))

    with ThreadPoolExecutor(max_workers=WORKERS) as ex:
        results = list(ex.map(job, enumerate(scns)))
    fired, evals, viols, harness, samples = {}, 0, [], [], []
    calls_total = 0
    for s, vs, f, e in results:
        evals += e
        calls_total += sum(s.ref.get("calls", {}).values())
        for k, v in f.items():
            fired[k] = fired.get(k, 0) + v
        if len(samples) < 4:
            samples.append(f"{s.describe()}: calls on the file {s.ref.get('calls')} {s.ref.get('params', '')}")
        for cls, msg, inject in vs:
            if cls == "HARNESS":
                harness.append(msg)
            else:
                viols.append(dict(scenario=s.name, args=s.args, inject=inject, cls=cls, msg=msg))
    # one replay file per (class, scenario kind), earliest fault first
    seen, reported = set(), []
    for v in viols:
        key = (v["cls"], v["scenario"])
        if key in seen:
            continue
        seen.add(key)
        path = save_replay(prop, tier, seed, v["scenario"], v["args"], v["inject"], v["cls"], v["msg"])
        reported.append(dict(v, replay=path, count=sum(1 for w in viols if (w["cls"], w["scenario"]) == key)))
    shutil.rmtree(SCRATCH, ignore_errors=True)
    return {
        "engine": "sysfault: sysdrv (real path-based API calls on real files) under strace -P <file> -e inject=...",
        "scenarios": len(scns),
        "evaluations": evals,
        "faults_fired": fired,
        "syscalls_on_target_files_fault_free": calls_total,
        "samples": samples,
        "violations": reported,
        "harness_errors": harness,
        "wall_s": round(time.time() - t0, 1),
        "real_components": ["flac-codec path APIs: create / open / update / verify / blocks / FrameIterator::open", "std::fs::File, BufReader, BufWriter", "the Linux kernel's file I/O (tmpfs/ext4 under sim/target/tmp)"],
        "stub_components": ["strace syscall tampering (the fault injector)"],
    }


def replay(rp):
    prop, name, args, inject = rp["property"], rp["scenario"], rp["args"], rp.get("inject")
    wd = os.path.join(SCRATCH, "replay")
    shutil.rmtree(wd, ignore_errors=True)
    s, vs, _, _ = run_one(prop, name, args, [("replayed", inject)] if inject else [], wd)
    shutil.rmtree(wd, ignore_errors=True)
    vs = [v for v in vs if v[0] != "HARNESS"] or vs
    if vs:
        cls, msg, _ = vs[0]
        print(f"replayed: class={cls} ({'same class' if cls == rp['class'] else 'DIFFERENT class, recorded ' + rp['class']})")
        print(f"  {msg}")
        return 1
    print("replay did not reproduce a violation on this tree")
    return 0


if __name__ == "__main__":
    r = run(sys.argv[1], sys.argv[2] if len(sys.argv) > 2 else "quick", int(os.environ.get("VERIF_SEED", "1")))
    print(json.dumps(r, indent=1))
