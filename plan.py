"""Per-property plan: scenarios, profiles, run counts per tier, evidence texts."""

RT_RULE = ("each run draws stream parameters, encoder options, signal family, length (biased to short final "
           "blocks), writer front-end, call chunking, buffer capacities and benign I/O fault rates from one "
           "PRNG; fingerprint = hash of the API-operation/result sequence and of every simulated I/O event "
           "(op kind, fault kind, result); a run is non-trivial if at least one transfer of >= 8 bytes "
           "reached the simulated disk; distinct_nontrivial counts distinct fingerprints of non-trivial runs")

PLAN = {
    "C01": dict(level="exploration", rule=RT_RULE,
                quick=[("rt", "release", 40000), ("rt", "checked", 10000), ("rtsweep", "release", 300), ("sizes", "release", 4000)],
                thorough=[("rt", "release", 1500000), ("rt", "checked", 300000), ("rtsweep", "release", 20000), ("rtsweep", "checked", 4000), ("sizes", "release", 200000), ("sizes", "checked", 20000)],
                exhaustive_subspaces=["rtsweep: every stream length 1..=70 for each drawn (block 16/32, LPC order, signal family, channels, depth, partition order) cell"],
                assumptions=["input/option space is sampled by the seeded workload, not enumerated",
                             "PcmModel (harness) is the single-copy log"]),
    "C02": dict(level="exploration", rule=RT_RULE + "; the judge is refflac only; scenario rawrt does the same for raw frame streams of the stream writer",
                quick=[("rt", "release", 40000), ("rawrt", "release", 10000), ("rtsweep", "release", 300), ("sizes", "release", 4000)],
                thorough=[("rt", "release", 1500000), ("rt", "checked", 200000), ("rawrt", "release", 400000), ("rtsweep", "release", 20000), ("sizes", "release", 200000)],
                assumptions=["refflac (written from RFC 9639, shares no code with the crate) is correct"]),
    "C09": dict(level="exploration", rule=RT_RULE + "; scenario c09big = 932100 frames with a seek point requested per frame (more than a table can hold)",
                quick=[("rt", "release", 40000), ("c09big", "release", 1), ("sizes", "release", 3000)],
                thorough=[("rt", "release", 1500000), ("rt", "checked", 200000), ("c09big", "release", 1), ("c09big", "checked", 1), ("sizes", "release", 150000)],
                assumptions=["frame boundaries come from refflac"]),
    "C19": dict(level="exploration", rule=RT_RULE + "; scenario rawrt applies the bound to raw stream-writer frames",
                quick=[("rt", "release", 40000), ("rawrt", "release", 10000), ("sizes", "release", 3000)],
                thorough=[("rt", "release", 1500000), ("rawrt", "release", 400000), ("sizes", "release", 150000)],
                assumptions=["frame boundaries come from refflac"]),
    "C17": dict(level="exploration", rule=RT_RULE,
                quick=[("rt", "release", 30000), ("dmg", "release", 150), ("dmgcat", "release", 150), ("synth", "release", 20000), ("bent", "release", 12000), ("dmggen", "release", 80), ("sizes", "release", 2000), ("c17gen", "release", 6000)],
                thorough=[("rt", "release", 1000000), ("dmg", "release", 4000), ("dmgcat", "release", 4000), ("synth", "release", 1500000), ("synth", "checked", 200000), ("bent", "release", 1000000), ("bent", "checked", 200000), ("dmggen", "release", 2000), ("sizes", "release", 100000), ("c17gen", "release", 300000), ("c17gen", "checked", 30000)],
                assumptions=[]),
    "C13": dict(level="fault_enumeration", supplement="sysfault",
                rule=("each run draws one transaction (encode+finalize through a writer front-end on a raw / caller-buffered / "
                      "crate-style owned-BufWriter sink; write_blocks; update_file in place or rebuilt; FlacStreamWriter; "
                      "read-side decode / verify / FrameIterator / generate_seektable), executes a fault-free twin to count its "
                      "N I/O events, then re-executes it once per fault placement: every event index n < N x {error once, error "
                      "from n on, write-zero from n on} plus disk-full at every write boundary (capacity b, b+1, end-1). Each "
                      "placement is one evaluation; it is non-trivial if the injected fault actually fired; distinct = distinct "
                      "hashes of the full I/O event sequence and result"),
                exhaustive_subspaces=["per scenario: every fault index n < N for N <= 1500 events (strided above), every fault kind"],
                quick=[("c13", "release", 1500)],
                thorough=[("c13", "release", 220000), ("c13", "checked", 40000)],
                assumptions=["hard faults are ErrorKind::Other / StorageFull / Ok(0); an injected UnexpectedEof is indistinguishable from a real end and is excluded",
                             "nothing is asserted about calls made after the first Err"]),
    "C14": dict(level="fault_enumeration", supplement="sysfault",
                rule=("each run encodes a drawn PCM through a drawn front-end (optionally behind a BufWriter) and leaks the writer "
                      "before finalize; every prefix of the append stream at write-call granularity, and at every byte for small "
                      "outputs, is handed to a reader (rotating over the 10 reader front-ends and verify_reader); one prefix x "
                      "reader = one evaluation; all are non-trivial; distinct = distinct (I/O event sequence, delivered length) hashes"),
                exhaustive_subspaces=["per scenario: every write-event crash point; every byte crash point for outputs <= 1500 (quick) / 4096 (thorough) bytes"],
                quick=[("c14", "release", 1200)],
                thorough=[("c14", "release", 600000), ("c14", "checked", 100000)],
                assumptions=["frame boundaries of the append stream come from refflac", "crashes during finalize are outside the property"]),
    "C07": dict(level="exploration", supplement="sysfault",
                rule=("each run builds a valid file with non-periodic PCM, opens one reader front-end over a SimFile behind drawn benign "
                      "read faults, an optional BufReader of drawn capacity and an optional split point, and drives a drawn history of "
                      "1-40 operations from {read(n), fill_buf, consume(k), read_to_end, read bursts, iterator} plus 1-5 calls after "
                      "end-of-stream, comparing every result with a cursor over the PCM model; scenario c07split sweeps every single "
                      "split point of files <= 2 KiB; fingerprint = API op/result sequence + I/O event sequence; non-trivial = at least "
                      "one transfer >= 8 bytes"),
                exhaustive_subspaces=["c07split: every split point 1..len-1 of each generated file <= 2048 bytes"],
                quick=[("c07", "release", 40000), ("c07split", "release", 400), ("c07gen", "release", 15000)],
                thorough=[("c07", "release", 2000000), ("c07", "checked", 200000), ("c07split", "release", 20000), ("c07gen", "release", 800000), ("c07gen", "checked", 100000)],
                assumptions=["PcmModel serialisations computed by the harness"]),
    "C06": dict(level="exploration",
                rule=("as C07 but on seekable readers, with seeks mixed into the history (targets biased to frame boundaries +-1, "
                      "mid-frame, 0, end-1, end, end+1, far beyond, Current(+-k), End(-k), byte positions inside a PCM frame) over files "
                      "with every seek-table shape (none, every frame, sparse, per second, trailing placeholders inserted via "
                      "update_file) and streams after a junk prefix; oracle = std Cursor semantics over the PCM bytes / samples"),
                quick=[("c06", "release", 40000), ("c06gen", "release", 15000)],
                thorough=[("c06", "release", 2000000), ("c06", "checked", 200000), ("c06gen", "release", 800000), ("c06gen", "checked", 100000)],
                assumptions=["no assumption about the position after a failed seek (the history re-seeks)"]),
    "C08": dict(level="exploration", supplement="sysfault",
                rule=("each run fixes (signal, options), takes the one-call sample-writer encode on a perfect sink as golden, and "
                      "encodes variants on their own simulated disks: every two-way split point of the input (units: samples, bytes "
                      "or PCM frames by front-end), drawn multi-way chunkings with empty writes through all four front-ends, "
                      "BufWriter capacities, benign write faults, non-zero stream offsets, and a trailing partial PCM frame; each "
                      "variant is one evaluation; distinct = distinct I/O event sequences"),
                exhaustive_subspaces=["family 0: every two-way split point 0..=total of the generated input for the drawn front-end"],
                quick=[("c08", "release", 6000)],
                thorough=[("c08", "release", 300000), ("c08", "checked", 30000)],
                assumptions=["golden is computed from the same tree as the variants"]),
    "C15": dict(level="exploration",
                rule=("four parts: (grid) one run sweeps bits 0..=34 x channels 0..=9 x 8 declared totals for one constructor and one "
                      "of 9 sample rates, every documented-legal cell must then round-trip; (options) setters at 0/interior/max/max+1 "
                      "and a round trip with the accepted extremes; (stream writer) parameter sweep incl. the empty frame; (length "
                      "contract) declared N vs delivered N-k/N/N+k through drawn chunkings on a simulated disk. Every constructor "
                      "call / round trip is one evaluation"),
                exhaustive_subspaces=["grid part: the full bits x channels x totals sub-grid for each (constructor, rate) slice drawn; 27 slices exist"],
                quick=[("c15", "release", 600), ("c15", "checked", 300)],
                thorough=[("c15", "release", 150000), ("c15", "checked", 50000)],
                assumptions=[]),
    "C16": dict(level="exploration",
                rule=("sender = FlacStreamWriter emitting 1-8 frames with independently drawn rate/channels/depth/length (through "
                      "benign write faults); (1) refflac decodes every frame from its own header; transport = concatenation, or "
                      "garbage (no 0xFF / 0xFF without sync / sync look-alikes / truncated real headers / runs of 0xFF) before and "
                      "between frames, optionally dropping frames; receiver = FlacStreamReader over a BufRead source with drawn "
                      "refill segmentation and EINTR rate, the caller retrying interrupted reads; scenario c16sweep takes streams "
                      "<= 1 KiB through every single split point and through EINTR at every fill_buf call index; one receive = one "
                      "evaluation; distinct = distinct I/O event sequences"),
                exhaustive_subspaces=["c16sweep: every split point 1..len-1; EINTR at every fill_buf call index for two segmentations"],
                quick=[("c16", "release", 20000), ("c16sweep", "release", 300)],
                thorough=[("c16", "release", 4000000), ("c16", "checked", 400000), ("c16sweep", "release", 60000)],
                assumptions=["a returned frame that refflac finds checksum-valid somewhere on the wire is not counted as fabricated"]),
    "C04": dict(level="fault_enumeration",
                rule=("corpus file = small encoder output (1-4 frames, blocks 16-64, drawn signal/option family) or a libFLAC-made "
                      "fixture; fault coordinates per file: every single-bit flip (metadata included), every truncation length, every "
                      "16-byte zeroed sector, sampled double flips, sampled flips with CRC-8/CRC-16 repaired, plus (dmgcat) the "
                      "must-reject catalogue; each damaged file is fed to 6 (quick) / all 18 (thorough) of the decoding and parsing "
                      "entry points in rotation; one (damaged file, entry point) = one evaluation; monitors: panic/abort, hang "
                      "(EOF-poll and event budgets), peak allocation <= 64 MiB + 16 x input; both profiles"),
                exhaustive_subspaces=["per corpus file <= 700 bytes: all single-bit flips, all truncation lengths, all 16-byte sectors"],
                quick=[("dmg", "release", 130), ("dmg", "checked", 130), ("dmgcat", "release", 40), ("dmgcat", "checked", 40), ("synth", "release", 6000), ("synth", "checked", 6000), ("bent", "release", 5000), ("bent", "checked", 5000), ("dmggen", "release", 60), ("dmggen", "checked", 60)],
                thorough=[("dmg", "release", 2500), ("dmg", "checked", 2500), ("dmgcat", "release", 2000), ("dmgcat", "checked", 2000), ("synth", "release", 500000), ("synth", "checked", 500000), ("bent", "release", 300000), ("bent", "checked", 300000), ("dmggen", "release", 1500), ("dmggen", "checked", 1500)],
                assumptions=["restricted claim: only byte strings that storage/transport faults derive from valid files, not all byte strings"]),
    "C05": dict(level="fault_enumeration",
                rule=("same corpus; coordinates: every single-bit flip inside the audio frames and the stored MD5, every truncation "
                      "length, (thorough) zeroed sectors, repaired flips, double flips; each damaged file is fully decoded through 2-3 "
                      "reader front-ends in rotation and through verify_reader; refflac judges the altered bytes; dmgcat = must-reject "
                      "catalogue through all 10 readers and verify_reader; one (damaged file, reader) = one evaluation"),
                exhaustive_subspaces=["per corpus file <= 700 bytes: all single-bit flips in the frame region and the digest, all truncation lengths"],
                quick=[("dmg", "release", 220), ("dmgcat", "release", 150), ("bent", "release", 12000), ("dmggen", "release", 100)],
                thorough=[("dmg", "release", 6000), ("dmg", "checked", 1000), ("dmgcat", "release", 5000), ("bent", "release", 1000000), ("bent", "checked", 100000), ("dmggen", "release", 3000), ("dmggen", "checked", 500)],
                assumptions=["refflac decides whether altered bytes happen to be another valid stream",
                             "checksum-consistent random edits are not judged for silent acceptance (C03's question)"]),
    "C10": dict(level="exploration", supplement="sysfault",
                rule=("each run builds a finished file with 0/1/several padding blocks and drawn comment/picture/application/seek-table/"
                      "cue-sheet blocks, then applies a history of 1-12 update_file calls on the simulated disk (benign faults on both "
                      "files): comment growth sized to land -8..+8 bytes around the exact fit of the first padding block, add/drop "
                      "pictures and application blocks, resize/remove/add padding, an over-size (>= 2^24 byte) block, a second PNG icon, "
                      "a failing callback; the history continues on whichever file a step produced; fingerprint = API result sequence + "
                      "I/O events; non-trivial = at least one transfer >= 8 bytes"),
                quick=[("c10", "release", 6000), ("c10big", "release", 160)],
                thorough=[("c10", "release", 300000), ("c10", "checked", 30000), ("c10big", "release", 6000), ("c10big", "checked", 600)],
                assumptions=["edited list = the BlockList as it stands at the end of the callback", "metadata boundaries from refflac"]),
    "C11": dict(level="exploration",
                rule=("restricted claim: block values are sampled (STREAMINFO extremes incl. 1-bit and 32-bit, arbitrary UTF-8 comments, "
                      "pictures, application data, seek tables with placeholders, cue sheets from generated text; some lists break the "
                      "single-instance rules on purpose); written with write_blocks through short writes/EINTR, read with read_blocks "
                      "through short/one-byte reads/EINTR; c11flips = every single-bit flip of a metadata section, accepted ones must "
                      "re-serialise and re-read equal"),
                exhaustive_subspaces=["c11flips: every single-bit flip of each generated metadata section <= 1500 bytes"],
                quick=[("c11", "release", 20000), ("c11flips", "release", 150)],
                thorough=[("c11", "release", 5000000), ("c11", "checked", 500000), ("c11flips", "release", 60000)],
                assumptions=["value space of blocks is sampled, not enumerated (pure-input quantifier)"]),
    "C18": dict(external="c18check"),
}

# reach probes that must be non-zero in the thorough tier (a probe stuck at zero means the workload
# or fault mix must change); measured names, see DESIGN.md Appendix B
EXPECT = {
 "C01": [
  "sizes_block_size_table_neighbourhood",
  "sizes_final_frame_length_from_table_neighbourhood",
  "empty_write",
  "final_block_1",
  "final_block_le_2order",
  "write_ended_inside_pcm_frame"
 ],
 "C02": [
  "byte_writer_flushed_between_writes",
  "sizes_padding_fits_seektable_within_4_bytes",
  "sizes_block_size_table_neighbourhood",
  "sizes_final_frame_length_from_table_neighbourhood",
  "assign_independent",
  "assign_left_side",
  "assign_mid_side",
  "assign_side_right",
  "bps_streaminfo",
  "bs_16bit",
  "bs_8bit",
  "bs_common",
  "c16_parameter_change_between_frames",
  "empty_write",
  "escaped_partition",
  "final_block_1",
  "final_block_le_2order",
  "partition_order_ge3",
  "rate_common",
  "rate_dahz",
  "rate_hz",
  "rate_khz",
  "rate_streaminfo",
  "rice2",
  "sub_constant",
  "sub_fixed0",
  "sub_fixed1",
  "sub_fixed2",
  "sub_fixed3",
  "sub_fixed4",
  "sub_lpc_13_32",
  "sub_lpc_1_4",
  "sub_lpc_5_12",
  "sub_verbatim",
  "wasted_bits",
  "write_ended_inside_pcm_frame",
  "zero_width_partition"
 ],
 "C04": [
  "dmg_all_ones_run",
  "dmg_all_zeros_run",
  "dmg_generator_made_file",
  "bent_frame_built",
  "bent_frame_invalid_per_refflac",
  "bent_frame_still_valid_per_refflac",
  "bent_porder_more_partitions_than_samples",
  "bent_porder_not_dividing_block",
  "bent_porder_partition_shorter_than_order",
  "catalogue_entry",
  "dmg_double_flip",
  "dmg_fixture_file",
  "dmg_flip_with_checksums_repaired",
  "dmg_zero_sector",
  "flip_in_blocking_bit",
  "flip_in_blocksize_code",
  "flip_in_channel_code",
  "flip_in_coded_number_or_ext",
  "flip_in_coding_method",
  "flip_in_crc16",
  "flip_in_crc8",
  "flip_in_depth_code",
  "flip_in_lpc_precision_or_shift",
  "flip_in_metadata",
  "flip_in_partition_order",
  "flip_in_rate_code",
  "flip_in_reserved_bit",
  "flip_in_rice_parameter",
  "flip_in_subframe_body",
  "flip_in_subframe_header",
  "flip_in_sync",
  "trunc_in_frame_footer",
  "trunc_in_frame_header",
  "trunc_in_metadata",
  "trunc_in_subframe",
  "trunc_on_frame_boundary"
 ],
 "C05": [
  "dmg_generator_made_file",
  "bent_frame_built",
  "bent_frame_invalid_per_refflac",
  "bent_frame_still_valid_per_refflac",
  "bent_porder_more_partitions_than_samples",
  "bent_porder_not_dividing_block",
  "bent_porder_partition_shorter_than_order",
  "bent_must_reject",
  "c05_crc_collision_frame_accepted_by_both",
  "c05_md5_mismatch_reported",
  "catalogue_entry",
  "dmg_fixture_file",
  "flip_in_blocking_bit",
  "flip_in_blocksize_code",
  "flip_in_channel_code",
  "flip_in_coded_number_or_ext",
  "flip_in_coding_method",
  "flip_in_crc16",
  "flip_in_crc8",
  "flip_in_depth_code",
  "flip_in_lpc_precision_or_shift",
  "flip_in_metadata",
  "flip_in_partition_order",
  "flip_in_rate_code",
  "flip_in_reserved_bit",
  "flip_in_rice_parameter",
  "flip_in_subframe_body",
  "flip_in_subframe_header",
  "flip_in_sync",
  "trunc_in_frame_footer",
  "trunc_in_frame_header",
  "trunc_in_metadata",
  "trunc_in_subframe",
  "trunc_on_frame_boundary"
 ],
 "C06": [
  "rd_generator_made_file",
  "rd_variable_block_size_stream",
  "c06_current_forward",
  "c06_current_negative",
  "c06_seek_after_eos",
  "c06_seek_beyond_end",
  "c06_seek_frame_boundary",
  "c06_seek_from_end",
  "c06_seek_mid_frame",
  "c06_seek_mid_pcm_frame",
  "c06_table_first_point_after_start",
  "c06_table_only_placeholders",
  "c06_table_with_placeholders",
  "c07_call_after_eos",
  "c07_consume_0",
  "c07_consume_all",
  "c07_consume_partial"
 ],
 "C07": [
  "rd_generator_made_file",
  "rd_variable_block_size_stream",
  "c07_call_after_eos",
  "c07_consume_0",
  "c07_consume_all",
  "c07_consume_partial"
 ],
 "C08": [
  "byte_writer_flushed_between_writes",
  "c08_block_larger_than_64k_of_pcm",
  "c08_only_partial_frame_after_whole_blocks",
  "c08_trailing_partial_frame",
  "c08_two_way_sweep",
  "c08_variant_with_faults",
  "empty_write",
  "final_block_1",
  "final_block_le_2order",
  "write_ended_inside_pcm_frame"
 ],
 "C09": [
  "sizes_padding_fits_seektable_within_4_bytes",
  "sizes_block_size_table_neighbourhood",
  "sizes_final_frame_length_from_table_neighbourhood",
  "c09_more_frames_than_max_points",
  "c09_no_padding",
  "c09_no_room_for_table",
  "c09_nonzero_offset",
  "c09_prefinalize_has_frames",
  "c09_table_carved_from_padding",
  "c09_table_prereserved",
  "empty_write",
  "final_block_1",
  "final_block_le_2order",
  "write_ended_inside_pcm_frame"
 ],
 "C10": [
  "c10_stream_not_at_offset_0",
  "c10_padding_near_24bit_limit",
  "c10_24bit_limit_crossed",
  "c10_delta_above_fit",
  "c10_delta_below_fit",
  "c10_delta_exact_fit",
  "c10_delta_one_over",
  "c10_delta_one_short",
  "c10_in_place",
  "c10_metadata_larger_than_8k",
  "c10_no_padding",
  "c10_rebuild_taken",
  "c10_refused_or_failed_edit",
  "c10_several_padding_blocks"
 ],
 "C11": [
  "cue_cdda_lead_in_other_than_88200",
  "c11_streaminfo_is_the_only_block",
  "cue_non_cdda_accepted",
  "cue_non_cdda_accepted_254_tracks",
  "cue_non_cdda_accepted_index_254",
  "cue_non_cdda_accepted_128_digit_catalog",
  "cue_isrc_with_dashes",
  "c11_flipped_metadata_still_accepted",
  "c11_list_refused",
  "c11_roundtrip_ok"
 ],
 "C13": [
  "c13_disk_full_fired",
  "c13_eintr_placed",
  "c13_error_from_fired",
  "c13_error_once_fired",
  "c13_metadata_larger_than_8k",
  "c13_ok_returned_after_fault_fired",
  "c13_read_unknown_total",
  "c13_rebuilt_closure_failure_propagated",
  "c13_short_transfer_placed",
  "c13_write_zero_fired",
  "empty_write",
  "final_block_1",
  "final_block_le_2order",
  "write_ended_inside_pcm_frame"
 ],
 "C14": [
  "c14_overfill_then_crash",
  "c14_overfill_refused",
  "c14_more_than_32_frames",
  "c14_byte_granularity",
  "c14_crash_in_metadata",
  "c14_crash_inside_frame",
  "c14_crash_on_frame_boundary",
  "c14_declared",
  "c14_undeclared",
  "empty_write",
  "final_block_1",
  "final_block_le_2order",
  "write_ended_inside_pcm_frame"
 ],
 "C15": [
  "c15_accepted_roundtrip",
  "c15_block_65535",
  "c15_ctor_accepted",
  "c15_ctor_rejected",
  "c15_exact_or_undeclared",
  "c15_grid_slice",
  "c15_lpc_order_32",
  "c15_overfill",
  "c15_overfill_detected_at_finalize",
  "c15_overfill_detected_at_write",
  "c15_partition_order_15",
  "c15_stream_writer_boundary_rate",
  "c15_stream_writer_empty_frame",
  "c15_underfill",
  "empty_write",
  "final_block_1",
  "final_block_le_2order",
  "write_ended_inside_pcm_frame"
 ],
 "C16": [
  "c16_frame_numbers_beyond_127",
  "c16_block_longer_than_4608",
  "c16_uncodable_rate_refused",
  "c16_uncodable_depth_refused",
  "c16_frame_dropped_by_transport",
  "c16_frame_lost_to_lookalike_or_drop",
  "c16_garbage_all_ff",
  "c16_garbage_ff_only",
  "c16_garbage_no_ff",
  "c16_garbage_sync_lookalike",
  "c16_garbage_truncated_real_header",
  "c16_parameter_change_between_frames",
  "c16_sync_split_across_refill"
 ],
 "C17": [
  "syn_variable_blocking_strategy",
  "dmg_all_ones_run",
  "dmg_all_zeros_run",
  "rd_depth_coded_as_see_streaminfo",
  "rd_block_sizes_from_code_table",
  "rd_variable_block_size_stream",
  "sizes_block_size_table_neighbourhood",
  "sizes_final_frame_length_from_table_neighbourhood",
  "dmg_generator_made_file",
  "bent_frame_built",
  "bent_frame_invalid_per_refflac",
  "bent_frame_still_valid_per_refflac",
  "bent_porder_more_partitions_than_samples",
  "bent_porder_not_dividing_block",
  "bent_porder_partition_shorter_than_order",
  "bent_accepted_by_both_raw_readers",
  "bent_rejected_by_both_raw_readers",
  "bent_accepted_frame_reserialised_identically",
  "bent.residual_extreme.rejected_by_both",
  "bent.long_unary.accepted_by_both",
  "bent.coef_extreme.accepted_by_both",
  "bent.order_gt_block.rejected_by_both",
  "bent.wasted_ge_bits.rejected_by_both",
  "c17_canonical_frame",
  "c17_shortblock_excluded",
  "catalogue_entry",
  "dmg_double_flip",
  "dmg_fixture_file",
  "dmg_flip_with_checksums_repaired",
  "dmg_zero_sector",
  "empty_write",
  "final_block_1",
  "final_block_le_2order",
  "flip_in_blocking_bit",
  "flip_in_blocksize_code",
  "flip_in_channel_code",
  "flip_in_coded_number_or_ext",
  "flip_in_coding_method",
  "flip_in_crc16",
  "flip_in_crc8",
  "flip_in_depth_code",
  "flip_in_lpc_precision_or_shift",
  "flip_in_metadata",
  "flip_in_partition_order",
  "flip_in_rate_code",
  "flip_in_reserved_bit",
  "flip_in_rice_parameter",
  "flip_in_subframe_body",
  "flip_in_subframe_header",
  "flip_in_sync",
  "trunc_in_frame_footer",
  "trunc_in_frame_header",
  "trunc_in_metadata",
  "trunc_in_subframe",
  "trunc_on_frame_boundary",
  "write_ended_inside_pcm_frame"
 ],
 "C19": [
  "sizes_block_size_table_neighbourhood",
  "sizes_final_frame_length_from_table_neighbourhood",
  "c16_parameter_change_between_frames",
  "c19_constant_block",
  "empty_write",
  "final_block_1",
  "final_block_le_2order",
  "verbatim_fallback",
  "write_ended_inside_pcm_frame"
 ]
}
for _k, _v in EXPECT.items():
    PLAN[_k]["expect_probes"] = _v
