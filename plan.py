"""Per-property plan: scenarios, profiles, run counts per tier, evidence texts."""

RT_RULE = ("each run draws stream parameters, encoder options, signal family, length (biased to short final "
           "blocks), writer front-end, call chunking, buffer capacities and benign I/O fault rates from one "
           "PRNG; fingerprint = hash of the API-operation/result sequence and of every simulated I/O event "
           "(op kind, fault kind, result); a run is non-trivial if at least one transfer of >= 8 bytes "
           "reached the simulated disk; distinct_nontrivial counts distinct fingerprints of non-trivial runs")

PLAN = {
    "C01": dict(level="exploration", rule=RT_RULE,
                quick=[("rt", "release", 40000), ("rt", "checked", 10000)],
                thorough=[("rt", "release", 1500000), ("rt", "checked", 300000)],
                assumptions=["input/option space is sampled by the seeded workload, not enumerated",
                             "PcmModel (harness) is the single-copy log"]),
    "C02": dict(level="exploration", rule=RT_RULE + "; the judge is refflac only",
                quick=[("rt", "release", 40000)],
                thorough=[("rt", "release", 1500000), ("rt", "checked", 200000)],
                assumptions=["refflac (written from RFC 9639, shares no code with the crate) is correct"]),
    "C09": dict(level="exploration", rule=RT_RULE,
                quick=[("rt", "release", 40000)],
                thorough=[("rt", "release", 1500000), ("rt", "checked", 200000)],
                assumptions=["frame boundaries come from refflac"]),
    "C19": dict(level="exploration", rule=RT_RULE,
                quick=[("rt", "release", 40000)],
                thorough=[("rt", "release", 1500000)],
                assumptions=["frame boundaries come from refflac"]),
    "C17": dict(level="exploration", rule=RT_RULE,
                quick=[("rt", "release", 30000)],
                thorough=[("rt", "release", 1000000)],
                assumptions=[]),
}
