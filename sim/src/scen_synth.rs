//! Generator-made frames: valid by construction, using every syntactic alternative of the frame
//! grammar (incl. ones the crate's encoder never emits: any Rice parameter, escapes at any width,
//! wasted bits on side channels, LPC to order 32 and precision 1..15, the 33-bit side channel),
//! residuals derived from arbitrary target PCM, serialised by refflac's own RFC 9639 frame writer —
//! independently of the crate — and handed to both readers of the medium.
//!
//! C17: the structural parser must accept them, give the intended structure, re-serialise to the same
//!      bytes (and the crate's structural writer must produce those bytes from the structure), expand
//!      to the target PCM and agree with the streaming decoder.
//! C04: neither reader may panic, in either profile.
//! (That the streaming decoder returns exactly the target PCM is C03's statement; disagreement with
//!  refflac on a frame both accept would be printed as a NOTE, not claimed.)

use crate::core::*;
use crate::disk::{Segmentation, SimBufRead};
use crate::genr::{sample_max, sample_min};
use crate::monitor::{note, probe, take_panic};
use crate::refflac::{self, FrameSpec, PartSpec, SubSpec, SubframeSpec};
use crate::rng::{Choices, Xoshiro};
use crate::scen_c17::{expand, interleave32};
use bitstream_io::{BitCount, SignedBitCount};
use flac_codec::decode::{FlacSampleReader, FlacStreamReader};
use flac_codec::stream::{
    BitsPerSample, ChannelAssignment, Frame, FrameHeader, FrameNumber, ResidualPartition, Residuals, Subframe, SubframeWidth,
};
use std::io::Cursor;
use std::num::NonZero;
use std::panic::{AssertUnwindSafe, catch_unwind};

fn bits_signed(v: i64) -> u32 {
    if v >= 0 { 64 - v.leading_zeros() + 1 } else { 64 - (!v).leading_zeros() + 1 }
}

fn make_partitions(ch: &Choices, rng: &mut Xoshiro, res: &[i64], block: usize, order: usize, method1: bool) -> Option<Vec<PartSpec>> {
    let rmax: u32 = if method1 { 31 } else { 15 };
    // a partition order that divides the block and leaves the first partition non-empty
    let mut orders = vec![0u32];
    for p in 1..=15u32 {
        if block % (1usize << p) == 0 && (block >> p) > order {
            orders.push(p);
        }
    }
    let p = orders[ch.draw("syn.porder", orders.len() as u64) as usize];
    let per = block >> p;
    let mut parts = Vec::new();
    let mut pos = 0usize;
    for i in 0..(1usize << p) {
        let n = if i == 0 { per - order } else { per };
        let r = &res[pos..pos + n];
        pos += n;
        let maxabs = r.iter().map(|v| v.unsigned_abs()).max().unwrap_or(0);
        let need = r.iter().map(|v| bits_signed(*v)).max().unwrap_or(1);
        let part = match ch.draw("syn.pkind", 6) {
            0 if maxabs == 0 => PartSpec::Zero(n),
            1 | 2 if need <= 31 => PartSpec::Escaped((need + (rng.next() % 3) as u32).clamp(1, 31), r.to_vec()),
            _ => {
                // Rice: keep the unary part short (< 2^10)
                let folded_bits = 64 - (maxabs * 2 + 1).leading_zeros();
                let lo = folded_bits.saturating_sub(10);
                if lo > rmax - 1 {
                    if need <= 31 { PartSpec::Escaped(need, r.to_vec()) } else { return None }
                } else {
                    let hi = rmax - 1;
                    PartSpec::Rice(lo + (rng.next() % (hi - lo + 1).min(4) as u64) as u32, r.to_vec())
                }
            }
        };
        parts.push(part);
    }
    Some(parts)
}

fn crate_residuals<I: Copy>(conv: impl Fn(i64) -> I, method1: bool, parts: &[PartSpec]) -> Option<Residuals<I>> {
    fn mk<const RMAX: u32, I: Copy>(conv: &impl Fn(i64) -> I, parts: &[PartSpec]) -> Option<Vec<ResidualPartition<RMAX, I>>> {
        let mut out = Vec::new();
        for p in parts {
            out.push(match p {
                PartSpec::Zero(n) => ResidualPartition::Constant { partition_len: *n },
                PartSpec::Escaped(w, r) => ResidualPartition::Escaped {
                    escape_size: SignedBitCount::<0b11111>::try_from(*w).ok()?,
                    residuals: r.iter().map(|v| conv(*v)).collect(),
                },
                PartSpec::Rice(k, r) => ResidualPartition::Standard {
                    rice: BitCount::<RMAX>::try_from(*k).ok()?,
                    residuals: r.iter().map(|v| conv(*v)).collect(),
                },
            });
        }
        Some(out)
    }
    if method1 {
        mk::<0b11111, I>(&conv, parts).map(|p| Residuals::Method1 { partitions: p })
    } else {
        mk::<0b1111, I>(&conv, parts).map(|p| Residuals::Method0 { partitions: p })
    }
}

/// the crate's structure for a plain subframe description (None if its types cannot express it)
fn to_crate(s: &SubframeSpec, n: usize) -> Option<SubframeWidth> {
    let wide = s.bits == 33;
    let w = s.wasted;
    Some(match &s.body {
        SubSpec::Constant { sample } => {
            if wide {
                SubframeWidth::Wide(Subframe::Constant { block_size: n as u16, sample: *sample, wasted_bps: w })
            } else {
                SubframeWidth::Common(Subframe::Constant { block_size: n as u16, sample: *sample as i32, wasted_bps: w })
            }
        }
        SubSpec::Verbatim { samples } => {
            if wide {
                SubframeWidth::Wide(Subframe::Verbatim { samples: samples.clone(), wasted_bps: w })
            } else {
                SubframeWidth::Common(Subframe::Verbatim { samples: samples.iter().map(|v| *v as i32).collect(), wasted_bps: w })
            }
        }
        SubSpec::Fixed { order, warm_up, method1, parts } => {
            if wide {
                SubframeWidth::Wide(Subframe::Fixed {
                    order: *order as u8,
                    warm_up: warm_up.clone(),
                    residuals: crate_residuals(|v| v, *method1, parts)?,
                    wasted_bps: w,
                })
            } else {
                SubframeWidth::Common(Subframe::Fixed {
                    order: *order as u8,
                    warm_up: warm_up.iter().map(|v| *v as i32).collect(),
                    residuals: crate_residuals(|v| v as i32, *method1, parts)?,
                    wasted_bps: w,
                })
            }
        }
        SubSpec::Lpc { order, warm_up, precision, shift, coefs, method1, parts } => {
            if wide {
                SubframeWidth::Wide(Subframe::Lpc {
                    order: NonZero::new(*order as u8)?,
                    warm_up: warm_up.clone(),
                    precision: SignedBitCount::<15>::try_from(*precision).ok()?,
                    shift: *shift,
                    coefficients: coefs.iter().map(|c| *c as i32).collect(),
                    residuals: crate_residuals(|v| v, *method1, parts)?,
                    wasted_bps: w,
                })
            } else {
                SubframeWidth::Common(Subframe::Lpc {
                    order: NonZero::new(*order as u8)?,
                    warm_up: warm_up.iter().map(|v| *v as i32).collect(),
                    precision: SignedBitCount::<15>::try_from(*precision).ok()?,
                    shift: *shift,
                    coefficients: coefs.iter().map(|c| *c as i32).collect(),
                    residuals: crate_residuals(|v| v as i32, *method1, parts)?,
                    wasted_bps: w,
                })
            }
        }
    })
}

/// one subframe holding `target` (samples of `bits` bits); None if this draw cannot express it
fn make_subframe(ch: &Choices, rng: &mut Xoshiro, target: &[i64], bits: u32) -> Option<SubframeSpec> {
    let n = target.len();
    // wasted bits: only possible if all samples are multiples of 2^w (the generator arranges that sometimes)
    let mut w = 0u32;
    if target.iter().any(|v| *v != 0) {
        let tz = target.iter().filter(|v| **v != 0).map(|v| v.trailing_zeros()).min().unwrap_or(0);
        if tz > 0 && bits > 1 {
            w = tz.min(bits - 1);
            if ch.draw("syn.wasted.less", 3) == 2 {
                w = 1 + (rng.next() % w as u64) as u32;
            }
        }
    }
    let stored: Vec<i64> = target.iter().map(|v| v >> w).collect();
    let constant = stored.iter().all(|v| *v == stored[0]);
    let kind = ch.draw("syn.kind", 8);
    let mk = |body: SubSpec| SubframeSpec { bits, wasted: w, body, bend: Default::default() };
    if constant && kind < 3 {
        probe("syn_constant");
        if w > 0 {
            probe("syn_constant_with_wasted_bits");
        }
        return Some(mk(SubSpec::Constant { sample: stored[0] }));
    }
    if kind == 3 || n < 2 {
        probe("syn_verbatim");
        return Some(mk(SubSpec::Verbatim { samples: stored }));
    }
    let method1 = ch.draw("syn.method1", 3) == 2;
    if kind <= 5 {
        let order = (ch.draw("syn.fixed.order", 5) as usize).min(n - 1);
        let coef: &[&[i64]] = &[&[], &[1], &[2, -1], &[3, -3, 1], &[4, -6, 4, -1]];
        let mut res = Vec::with_capacity(n - order);
        for i in order..n {
            let p: i64 = coef[order].iter().enumerate().map(|(j, c)| c * stored[i - 1 - j]).sum();
            let r = stored[i] - p;
            if r <= i32::MIN as i64 || r > i32::MAX as i64 {
                return None;
            }
            res.push(r);
        }
        let parts = make_partitions(ch, rng, &res, n, order, method1)?;
        probe("syn_fixed");
        return Some(mk(SubSpec::Fixed {
            order: order as u32,
            warm_up: stored[..order].to_vec(),
            method1,
            parts,
        }));
    }
    // LPC: order 1..=32 (< n), precision 1..=15, shift 0..=15
    let order = (1 + ch.draw("syn.lpc.order", 32) as usize).min(n - 1);
    let precision = 1 + ch.draw("syn.lpc.precision", 15) as u32;
    let shift = ch.draw("syn.lpc.shift", 16) as u32;
    let cmax = (1i64 << (precision - 1)) - 1;
    let cmin = -(1i64 << (precision - 1));
    // keep the predictor roughly stable: total gain about 1 after the shift
    let scale = ((1i64 << shift) / order as i64).clamp(0, cmax.max(1));
    let coefs: Vec<i64> = (0..order)
        .map(|_| {
            let c = if scale == 0 { (rng.next() % 3) as i64 - 1 } else { (rng.next() % (2 * scale as u64 + 1)) as i64 - scale };
            c.clamp(cmin, cmax)
        })
        .collect();
    let mut res = Vec::with_capacity(n - order);
    for i in order..n {
        let p: i64 = coefs.iter().enumerate().map(|(j, c)| c * stored[i - 1 - j]).sum::<i64>() >> shift;
        let r = stored[i] - p;
        if r <= i32::MIN as i64 || r > i32::MAX as i64 {
            return None;
        }
        res.push(r);
    }
    let parts = make_partitions(ch, rng, &res, n, order, method1)?;
    probe("syn_lpc");
    if order > 12 {
        probe("syn_lpc_order_gt_12");
    }
    if precision == 15 {
        probe("syn_lpc_precision_15");
    }
    if precision == 1 {
        probe("syn_lpc_precision_1");
    }
    Some(mk(SubSpec::Lpc {
        order: order as u32,
        warm_up: stored[..order].to_vec(),
        precision,
        shift,
        coefs,
        method1,
        parts,
    }))
}

fn gen_target(ch: &Choices, rng: &mut Xoshiro, n: usize, bps: u32) -> Vec<i64> {
    let lo = sample_min(bps);
    let hi = sample_max(bps);
    let span = (hi - lo + 1) as u64;
    let fam = ch.draw("syn.sig", 7);
    let shiftk = if ch.draw("syn.sig.wasted", 4) == 3 && bps > 2 { 1 + rng.next() % (bps as u64 - 1).min(10) } else { 0 };
    let mut v: Vec<i64> = match fam {
        0 => vec![0; n],
        1 => vec![lo + (rng.next() % span) as i64; n],
        2 => (0..n).map(|_| lo + (rng.next() % span) as i64).collect(),
        3 => (0..n).map(|_| (rng.next() % 9) as i64 - 4).map(|x| x.clamp(lo, hi)).collect(),
        4 => (0..n).map(|i| if i % 2 == 0 { hi } else { lo }).collect(),
        5 => {
            let mut x = lo / 4;
            (0..n)
                .map(|_| {
                    x += (rng.next() % 7) as i64 - 2;
                    x.clamp(lo, hi)
                })
                .collect()
        }
        _ => {
            let a = (hi as f64) * 0.5;
            let w = 0.05 + (rng.next() % 100) as f64 / 200.0;
            (0..n).map(|i| ((a * (w * i as f64).sin()) as i64).clamp(lo, hi)).collect()
        }
    };
    if shiftk > 0 {
        for x in v.iter_mut() {
            *x = (*x >> shiftk) << shiftk;
        }
    }
    v
}

pub struct Made {
    pub spec: FrameSpec,
    /// target PCM per channel (after undoing decorrelation)
    pub chans: Vec<Vec<i64>>,
    /// the same frame as the crate's structure (None if its types cannot express it)
    pub crate_frame: Option<Frame>,
}

/// one valid frame of `n` samples per channel; None if this draw cannot express its target
pub fn make_frame(ch: &Choices, rng: &mut Xoshiro, bps: u32, bps_code: u8, assign: u64, channels: usize, n: usize, number: u64) -> Option<Made> {
    let chans: Vec<Vec<i64>> = (0..channels).map(|_| gen_target(ch, rng, n, bps)).collect();
    make_frame_from(ch, rng, bps, bps_code, assign, chans, number)
}

/// one valid frame holding the given PCM (per channel)
pub fn make_frame_from(ch: &Choices, rng: &mut Xoshiro, bps: u32, bps_code: u8, assign: u64, chans: Vec<Vec<i64>>, number: u64) -> Option<Made> {
    let channels = chans.len();
    let n = chans[0].len();
    let (code, ca, stored, sbits): (u8, ChannelAssignment, Vec<Vec<i64>>, Vec<u32>) = match assign {
        1 => (
            8,
            ChannelAssignment::LeftSide,
            vec![chans[0].clone(), chans[0].iter().zip(&chans[1]).map(|(l, r)| l - r).collect()],
            vec![bps, bps + 1],
        ),
        2 => (
            9,
            ChannelAssignment::SideRight,
            vec![chans[0].iter().zip(&chans[1]).map(|(l, r)| l - r).collect(), chans[1].clone()],
            vec![bps + 1, bps],
        ),
        3 => (
            10,
            ChannelAssignment::MidSide,
            vec![
                chans[0].iter().zip(&chans[1]).map(|(l, r)| (l + r) >> 1).collect(),
                chans[0].iter().zip(&chans[1]).map(|(l, r)| l - r).collect(),
            ],
            vec![bps, bps + 1],
        ),
        _ => (
            channels as u8 - 1,
            ChannelAssignment::Independent(channels.try_into().map_err(|_| ()).unwrap()),
            chans.clone(),
            vec![bps; channels],
        ),
    };
    let mut specs = Vec::new();
    for (s, b) in stored.iter().zip(&sbits) {
        let mut sf = None;
        for _attempt in 0..4 {
            sf = make_subframe(ch, rng, s, *b);
            if sf.is_some() {
                break;
            }
        }
        // a target no predictor of this draw can express (residuals beyond 32 bits): store it verbatim
        let sf = sf.unwrap_or_else(|| {
            probe("syn_verbatim_fallback");
            SubframeSpec { bits: *b, wasted: 0, body: SubSpec::Verbatim { samples: s.clone() }, bend: Default::default() }
        });
        if *b == 33 {
            probe("syn_33bit_side_channel");
        }
        if sf.wasted > 0 && *b == bps + 1 {
            probe("syn_wasted_bits_on_side_channel");
        }
        specs.push(sf);
    }
    let spec = FrameSpec {
        block_size: n as u32,
        rate_code: 9, // 44100 Hz
        assignment: code,
        bps_code,
        number,
        subs: specs.clone(),
        bend: Default::default(),
    };
    // the same frame as the crate's structure
    let subframes: Option<Vec<SubframeWidth>> = specs.iter().map(|s| to_crate(s, n)).collect();
    let crate_frame = subframes.map(|subframes| Frame {
        header: FrameHeader {
            blocking_strategy: false,
            block_size: (n as u16).try_into().unwrap(),
            sample_rate: 44100u32.try_into().unwrap(),
            channel_assignment: ca,
            bits_per_sample: BitsPerSample::from(SignedBitCount::<32>::try_from(bps).unwrap()),
            frame_number: FrameNumber(number),
        },
        subframes,
    });
    Some(Made { spec, chans, crate_frame })
}

pub fn run(ctx: &mut Ctx) -> R {
    let ch = ctx.ch.clone();
    let mut rng = Xoshiro::new(ch.raw("syn.seed"));
    let (bps, bps_code) = *ch.pick("syn.bps", &[(16u32, 4u8), (8, 1), (12, 2), (20, 5), (24, 6), (32, 7)]);
    let nframes = 1 + ch.draw("syn.frames", 3) as usize;
    let assign = ch.draw("syn.assign", 8);
    let channels: usize = match assign {
        0 => 1,
        1..=4 => 2,
        _ => 3 + (rng.next() % 6) as usize,
    };
    let mut frames: Vec<Option<Frame>> = Vec::new();
    let mut bytes: Vec<u8> = Vec::new();
    let mut pcm: Vec<Vec<i32>> = Vec::new();
    let mut bounds = Vec::new();
    let variable = ch.draw("syn.variable", 4) == 3;
    if variable {
        probe("syn_variable_blocking_strategy");
    }
    for k in 0..nframes {
        let n = match ch.draw("syn.n", 5) {
            0 => 16,
            1 => 1 + ch.draw("syn.n.small", 15) as usize,
            2 => *ch.pick("syn.n.common", &[192usize, 256, 64, 32, 128]),
            _ => 17 + ch.draw("syn.n.any", 80) as usize,
        };
        // frame numbers at the length boundaries of the UTF-8-like coding (1..6 bytes for 31 bits)
        let number = match ch.draw("syn.bigno", 6) {
            5 => 100_000 + k as u64,
            4 => *ch.pick("syn.no", &[127u64, 128, 2047, 2048, 65535, 65536, (1 << 21) - 1, 1 << 21, (1 << 26) - 1, 1 << 26, (1u64 << 31) - 1]),
            _ => k as u64,
        };
        let Some(m) = make_frame(&ch, &mut rng, bps, bps_code, assign, channels, n, number) else {
            ctx.eval(0, false);
            return Ok(()); // this draw cannot express the target; not a finding
        };
        let start = bytes.len();
        let mut m = m;
        if variable {
            // blocking-strategy bit set: the coded number is a sample number (legal; the crate's encoder never does this)
            m.spec.bend.variable = true;
            if let Some(f) = m.crate_frame.as_mut() {
                f.header.blocking_strategy = true;
            }
        }
        bytes.extend_from_slice(&refflac::write_frame(&m.spec));
        bounds.push((start, bytes.len()));
        frames.push(m.crate_frame);
        let chans = m.chans;
        let mut inter = Vec::with_capacity(n * channels);
        for i in 0..n {
            for c in &chans {
                inter.push(c[i] as i32);
            }
        }
        pcm.push(inter);
    }
    ctx.describe(|| {
        format!(
            "{} generator-made frames, bits={bps} channels={channels} assignment={assign} sizes={:?} bytes={}",
            frames.len(),
            pcm.iter().map(|p| p.len() / channels).collect::<Vec<_>>(),
            bytes.len()
        )
    });
    ctx.api(70, assign);
    // refflac's reader must agree with refflac's writer (guards the generator itself)
    let (rf, rend) = refflac::parse_raw_frames(&bytes);
    let gen_ok = rend == refflac::StreamEnd::Clean
        && rf.len() == frames.len()
        && rf.iter().zip(&pcm).all(|(f, p)| f.interleaved() == *p && f.strict.is_empty());
    if !gen_ok {
        return viol(
            "HARNESS-PANIC@generator",
            format!("refflac's own writer and reader disagree: {rend:?} after {} of {} frames, strict {:?}", rf.len(), frames.len(), rf.iter().flat_map(|f| f.strict.first()).next()),
        );
    }
    probe("syn_frames_valid_per_refflac");
    // streaming decoder, through a segmented BufRead
    let d = ctx.disk.clone();
    let dec = catch_unwind(AssertUnwindSafe(|| {
        let mut r = FlacStreamReader::new(SimBufRead::new(&d, bytes.clone(), Segmentation::Fixed(1 + bytes.len() % 11)));
        let mut got = Vec::new();
        let mut err = None;
        for _ in 0..frames.len() {
            match r.read() {
                Ok(f) => got.push(f.samples.to_vec()),
                Err(e) => {
                    err = Some(format!("{e:?}"));
                    break;
                }
            }
        }
        (got, err)
    }));
    let (dgot, derr) = match dec {
        Ok(x) => x,
        Err(_) => {
            let (loc, msg) = take_panic().unwrap_or_default();
            let v = crate::classify_panic(&loc, &msg);
            return viol(v.class, format!("FlacStreamReader on a valid generator-made frame: {msg}"));
        }
    };
    // structural parser
    let st = catch_unwind(AssertUnwindSafe(|| {
        let mut c = Cursor::new(&bytes);
        let mut out = Vec::new();
        for _ in 0..frames.len() {
            match Frame::read_subset(&mut c) {
                Ok(f) => {
                    let mut again = Vec::new();
                    let w = f.write_subset(&mut again).map_err(|e| format!("{e:?}"));
                    let exp = expand(&f);
                    out.push(Ok((f, w.map(|()| again), exp)));
                }
                Err(e) => {
                    out.push(Err(format!("{e:?}")));
                    break;
                }
            }
        }
        out
    }));
    let sgot = match st {
        Ok(x) => x,
        Err(_) => {
            let (loc, msg) = take_panic().unwrap_or_default();
            let v = crate::classify_panic(&loc, &msg);
            return viol(v.class, format!("structural parser / writer on a valid generator-made frame: {msg}"));
        }
    };
    let nt = ctx.disk.0.borrow().frame_sized_transfers > 0;
    ctx.eval(frames.len() as u64, nt);
    if ctx.is("C04") {
        // the file-level decoder too (STREAMINFO in front)
        let total: u64 = pcm.iter().map(|p| (p.len() / channels) as u64).sum();
        let maxb = pcm.iter().map(|p| p.len() / channels).max().unwrap_or(16) as u16;
        let file = assemble_subset(44100, channels as u8, bps, maxb, total, &bytes);
        let r = catch_unwind(AssertUnwindSafe(|| {
            if let Ok(mut r) = FlacSampleReader::new(Cursor::new(&file)) {
                let mut v = Vec::new();
                let _ = r.read_to_end(&mut v);
            }
            let _ = flac_codec::decode::verify_reader(Cursor::new(&file));
        }));
        if r.is_err() {
            let (loc, msg) = take_panic().unwrap_or_default();
            let v = crate::classify_panic(&loc, &msg);
            return viol(v.class, format!("file decoder on valid generator-made frames: {msg}"));
        }
        return Ok(());
    }
    // ---- C17
    for (i, intended) in frames.iter().enumerate() {
        let Some(sf) = sgot.get(i) else { break };
        match sf {
            Err(e) => {
                if dgot.len() > i {
                    return viol("parsers-disagree", format!("frame {i}: the structural parser rejects ({e}) a frame the streaming decoder accepts"));
                }
                note(format!("NOTE C03-matter: both readers reject a frame that is valid per refflac: {e}"));
                return Ok(());
            }
            Ok((parsed, rewritten, expanded)) => {
                if let Some(f) = intended {
                    if parsed != f {
                        return viol("reserialise-differs", format!("frame {i}: the parsed structure is not the structure the frame was built from"));
                    }
                }
                match rewritten {
                    Err(e) => {
                        return viol(
                            "reserialise-differs",
                            format!("frame {i}: the structural parser accepts this frame but writing the parsed structure back fails: {e}"),
                        );
                    }
                    Ok(again) => {
                        if again[..] != bytes[bounds[i].0..bounds[i].1] {
                            return viol("reserialise-differs", format!("frame {i}: re-serialised bytes differ from the original (canonical) frame"));
                        }
                    }
                }
                match expanded {
                    Err(t) => return viol("parsers-disagree", format!("frame {i}: {t}")),
                    Ok(e) => {
                        let got = interleave32(e);
                        match dgot.get(i) {
                            Some(dsamples) => {
                                if *dsamples != got {
                                    return viol("parsers-disagree", format!("frame {i}: streaming decoder and structural expansion disagree on a valid frame"));
                                }
                                if got != pcm[i] {
                                    note("NOTE C03-matter: both readers agree with each other but not with the PCM a valid frame was built from".to_string());
                                }
                                probe("syn_frame_agreed_by_both_readers");
                            }
                            None => {
                                return viol(
                                    "parsers-disagree",
                                    format!("frame {i}: the structural parser accepts a frame the streaming decoder rejects ({derr:?})"),
                                );
                            }
                        }
                    }
                }
            }
        }
    }
    Ok(())
}

fn assemble_subset(rate: u32, ch: u8, bps: u32, max_block: u16, total: u64, frames: &[u8]) -> Vec<u8> {
    use flac_codec::metadata::{Streaminfo, write_blocks};
    let si = Streaminfo {
        minimum_block_size: max_block,
        maximum_block_size: max_block,
        minimum_frame_size: None,
        maximum_frame_size: None,
        sample_rate: rate,
        channels: NonZero::new(ch).unwrap(),
        bits_per_sample: bps.try_into().unwrap(),
        total_samples: NonZero::new(total),
        md5: None,
    };
    let mut out = Vec::new();
    write_blocks(&mut out, [flac_codec::metadata::Block::from(si)]).unwrap();
    out.extend_from_slice(frames);
    out
}
