//! Checksum-valid but malformed (or legal but extreme) frames, made by refflac's own frame writer:
//! a generator-made valid frame has exactly one field pushed to an illegal or extreme value while the
//! rest of the frame stays consistent with that value (all partitions present for an impossible
//! partition order, all warm-up samples present for an order above the block size, a megabit unary
//! run, ...), and both checksums are computed over the result. The frame sits in a three-frame file.
//!
//! C04: every decoding / parsing entry point over the file, under the panic, hang and allocation
//!      monitors, in both profiles.
//! C05: if the independent reader says the file is not a valid stream (reserved / illegal code), every
//!      reader must end in an error after a whole-frame prefix of the genuine audio.
//! C17: the structural parser and the decoder accept and reject the same frames (file level with
//!      STREAMINFO, and raw frame level), expand accepted frames to the same samples, and a frame the
//!      structural parser accepts re-serialises to the same bytes when it is canonical.

use crate::core::*;
use crate::disk::{Segmentation, SimBufRead};
use crate::mix;
use crate::monitor::{probe, take_panic};
use crate::refflac::{self, FrameSpec, PartSpec, SubSpec};
use crate::rng::{Choices, Xoshiro};
use crate::scen_c17::{expand, interleave32};
use crate::scen_dmg::{Item, N_ENTRY, assemble, c04_one, c05_verify, c17_one};
use crate::scen_synth::make_frame;
use crate::world::{RKINDS, decode_all};
use flac_codec::decode::FlacStreamReader;
use flac_codec::stream::Frame;
use std::io::Cursor;
use std::panic::{AssertUnwindSafe, catch_unwind};

pub const BENDS: &[&str] = &[
    "sub_type_reserved",
    "sub_pad_bit",
    "wasted_ge_bits",
    "wasted_max_legal",
    "method_reserved",
    "porder_rebuilt",
    "porder_field_only",
    "precision_1111",
    "shift_negative",
    "order_gt_block",
    "residual_extreme",
    "long_unary",
    "coef_extreme",
    "sample_bits_off",
    "bs_code_0",
    "rate_15",
    "assign_reserved",
    "bps_3",
    "reserved_bit",
    "number_overlong",
    "number_bad_cont",
    "number_lead_ff",
    "number_7byte",
    "bs_65536",
    "bs_ext_mismatch",
    "rate_ext",
    "bps_from_streaminfo",
    "sync_bad",
    "footer_pad_ones",
    "escape_zero_width",
    "lpc_order_32_small_block",
    "fixed_extreme",
    "stereo_extreme",
    "side_doubling",
];

/// a probe whose name is made at run time (interned, so each distinct name is allocated once)
fn probe_dyn(name: String) {
    thread_local! {
        static NAMES: std::cell::RefCell<std::collections::HashMap<String, &'static str>> = Default::default();
    }
    let st = NAMES.with(|m| *m.borrow_mut().entry(name.clone()).or_insert_with(|| Box::leak(name.into_boxed_str())));
    probe(st);
}

fn small_parts(rng: &mut Xoshiro, counts: &[usize], method1: bool) -> Vec<PartSpec> {
    counts
        .iter()
        .map(|&n| match rng.next() % 4 {
            0 => PartSpec::Zero(n),
            1 => PartSpec::Escaped(1 + (rng.next() % 6) as u32, (0..n).map(|_| (rng.next() % 3) as i64 - 1).collect()),
            _ => PartSpec::Rice((rng.next() % if method1 { 31 } else { 15 }) as u32, (0..n).map(|_| (rng.next() % 9) as i64 - 4).collect()),
        })
        .collect()
}

/// applies bend `name` to `spec`; false if this frame has no place for it
fn apply_bend(name: &str, ch: &Choices, rng: &mut Xoshiro, spec: &mut FrameSpec, detail: &mut String) -> bool {
    let n = spec.block_size as usize;
    let nsub = spec.subs.len();
    let si = (rng.next() % nsub as u64) as usize;
    // index of a subframe with residuals, if any
    let with_res = (0..nsub).map(|k| (si + k) % nsub).find(|&k| matches!(spec.subs[k].body, SubSpec::Fixed { .. } | SubSpec::Lpc { .. }));
    let with_lpc = (0..nsub).map(|k| (si + k) % nsub).find(|&k| matches!(spec.subs[k].body, SubSpec::Lpc { .. }));
    match name {
        "sub_type_reserved" => {
            // every reserved 6-bit type code: 000010-000111 and 001101-011111
            let reserved: Vec<u8> = (2u8..=7).chain(13..=31).collect();
            spec.subs[si].bend.type_code = Some(*ch.pick("bent.type", &reserved));
        }
        "sub_pad_bit" => spec.subs[si].bend.pad_bit = Some(1),
        "wasted_ge_bits" => {
            let s = &mut spec.subs[si];
            s.wasted = s.bits + *ch.pick("bent.wasted.over", &[0u32, 1, 5, 40]);
            s.bend.sample_bits = Some(*ch.pick("bent.wasted.sbits", &[0u32, 1, 8]));
        }
        "wasted_max_legal" => {
            let s = &mut spec.subs[si];
            s.wasted = s.bits - 1;
        }
        "method_reserved" => {
            let Some(k) = with_res else { return false };
            spec.subs[k].bend.method_code = Some(2 + (rng.next() % 2) as u8);
        }
        "porder_rebuilt" => {
            let Some(k) = with_res else { return false };
            let p = ch.draw("bent.porder", 16) as u32;
            let (order, m1) = match &spec.subs[k].body {
                SubSpec::Fixed { order, method1, .. } | SubSpec::Lpc { order, method1, .. } => (*order as usize, *method1),
                _ => unreachable!(),
            };
            let per = n >> p;
            let counts: Vec<usize> = (0..(1usize << p)).map(|i| if i == 0 { per.saturating_sub(order) } else { per }).collect();
            let parts = small_parts(rng, &counts, m1);
            match &mut spec.subs[k].body {
                SubSpec::Fixed { parts: ps, .. } | SubSpec::Lpc { parts: ps, .. } => *ps = parts,
                _ => unreachable!(),
            }
            if n % (1usize << p) != 0 {
                probe("bent_porder_not_dividing_block");
            }
            if per < order {
                probe("bent_porder_partition_shorter_than_order");
            } else if per == order {
                probe("bent_porder_first_partition_empty");
            }
            if (1usize << p) > n {
                probe("bent_porder_more_partitions_than_samples");
            }
        }
        "porder_field_only" => {
            let Some(k) = with_res else { return false };
            spec.subs[k].bend.porder = Some(ch.draw("bent.porder.field", 16) as u32);
        }
        "precision_1111" => {
            let Some(k) = with_lpc else { return false };
            spec.subs[k].bend.precision_code = Some(15);
            if let SubSpec::Lpc { precision, coefs, .. } = &mut spec.subs[k].body {
                if rng.next() % 2 == 0 {
                    // coefficients written with the 16 bits a naive reader would take
                    *precision = 16;
                    let _ = coefs;
                }
            }
        }
        "shift_negative" => {
            let Some(k) = with_lpc else { return false };
            spec.subs[k].bend.shift_raw = Some(16 + (rng.next() % 16) as u8);
        }
        "order_gt_block" | "lpc_order_32_small_block" => {
            // the frame must be small: the caller arranges n <= 8 for these
            let s = &mut spec.subs[si];
            let eb = s.bits.saturating_sub(s.wasted).clamp(1, 40);
            let lpc = name == "lpc_order_32_small_block" || rng.next() % 2 == 0;
            let order = if lpc { (n as u32 + 1 + (rng.next() % 8) as u32).min(32) } else { 4 };
            if order as usize <= n {
                return false;
            }
            let warm: Vec<i64> = (0..order).map(|_| (rng.next() % 5) as i64 - 2).collect();
            let _ = eb;
            let m1 = rng.next() % 2 == 0;
            let parts = small_parts(rng, &[0], m1);
            s.body = if lpc {
                SubSpec::Lpc { order, warm_up: warm, precision: 4, shift: 1, coefs: (0..order).map(|_| 1).collect(), method1: m1, parts }
            } else {
                SubSpec::Fixed { order, warm_up: warm, method1: m1, parts }
            };
        }
        "residual_extreme" => {
            let Some(k) = with_res else { return false };
            let (m1, parts) = match &mut spec.subs[k].body {
                SubSpec::Fixed { method1, parts, .. } | SubSpec::Lpc { method1, parts, .. } => (*method1, parts),
                _ => unreachable!(),
            };
            let pi = (rng.next() % parts.len() as u64) as usize;
            let cnt = match &parts[pi] {
                PartSpec::Rice(_, r) | PartSpec::Escaped(_, r) => r.len(),
                PartSpec::Zero(c) => *c,
            };
            if cnt == 0 {
                return false;
            }
            let v = *ch.pick("bent.res", &[i32::MIN as i64, i32::MAX as i64, i32::MIN as i64 + 1, -(1i64 << 32), (1i64 << 32), (1i64 << 33) - 1, -(1i64 << 30), (1i64 << 30) - 1]);
            let j = (rng.next() % cnt as u64) as usize;
            let mut r = vec![0i64; cnt];
            r[j] = v;
            if cnt > 1 && rng.next() % 2 == 0 {
                r[(j + 1) % cnt] = -v.max(-i64::MAX / 4);
            }
            let fits31 = v >= -(1 << 30) && v < (1 << 30);
            parts[pi] = if fits31 && rng.next() % 2 == 0 {
                PartSpec::Escaped(31, r)
            } else {
                PartSpec::Rice(if m1 { 30 } else { 14 }, r)
            };
            *detail = format!(" (value {v} in partition {pi} of {}, {})", parts.len(), match &parts[pi] {
                PartSpec::Escaped(w, _) => format!("escaped {w} bits"),
                PartSpec::Rice(k, _) => format!("Rice parameter {k}"),
                PartSpec::Zero(_) => String::new(),
            });
        }
        "long_unary" => {
            let Some(k) = with_res else { return false };
            let parts = match &mut spec.subs[k].body {
                SubSpec::Fixed { parts, .. } | SubSpec::Lpc { parts, .. } => parts,
                _ => unreachable!(),
            };
            let cnt = match &parts[0] {
                PartSpec::Rice(_, r) | PartSpec::Escaped(_, r) => r.len(),
                PartSpec::Zero(c) => *c,
            };
            if cnt == 0 {
                return false;
            }
            let mut r = vec![0i64; cnt];
            let bits = *ch.pick("bent.unary", &[12u32, 16, 20, 21]);
            r[(rng.next() % cnt as u64) as usize] = 1i64 << (bits - 1);
            parts[0] = PartSpec::Rice(0, r);
        }
        "coef_extreme" => {
            if n < 3 {
                return false;
            }
            let s = &mut spec.subs[si];
            let eb = s.bits.saturating_sub(s.wasted).clamp(1, 40);
            let order = (1 + rng.next() % 32).min(n as u64 - 1) as u32;
            let precision = *ch.pick("bent.coef.prec", &[15u32, 15, 1, 8]);
            let (cmin, cmax) = (-(1i64 << (precision - 1)), (1i64 << (precision - 1)) - 1);
            let (lo, hi) = (-(1i64 << (eb - 1)), (1i64 << (eb - 1)) - 1);
            let pat = rng.next() % 4;
            let coefs: Vec<i64> = (0..order)
                .map(|i| match pat {
                    0 => cmin,
                    1 => cmax,
                    2 => {
                        if i % 2 == 0 {
                            cmin
                        } else {
                            cmax
                        }
                    }
                    _ => cmin + (rng.next() % 3) as i64,
                })
                .collect();
            let warm: Vec<i64> = (0..order).map(|i| if (i + pat as u32) % 2 == 0 { lo } else { hi }).collect();
            let m1 = rng.next() % 2 == 0;
            let cnt = n - order as usize;
            let parts = if rng.next() % 2 == 0 { vec![PartSpec::Zero(cnt)] } else { small_parts(rng, &[cnt], m1) };
            s.body = SubSpec::Lpc { order, warm_up: warm, precision, shift: *ch.pick("bent.coef.shift", &[0u32, 0, 1, 15]), coefs, method1: m1, parts };
        }
        "fixed_extreme" => {
            // legal grammar, extreme arithmetic: order-4 FIXED predictor over alternating full-scale
            // warm-up samples, residuals at the limits of 32 bits
            if n < 6 {
                return false;
            }
            let s = &mut spec.subs[si];
            let eb = s.bits.saturating_sub(s.wasted).clamp(1, 40);
            let (lo, hi) = (-(1i64 << (eb - 1)), (1i64 << (eb - 1)) - 1);
            let order = 1 + (rng.next() % 4) as u32;
            let warm: Vec<i64> = (0..order).map(|i| if i % 2 == 0 { hi } else { lo }).collect();
            let m1 = rng.next() % 2 == 0;
            let cnt = n - order as usize;
            let big = *ch.pick("bent.fixed.res", &[i32::MAX as i64, i32::MIN as i64 + 1, 1 << 30, -(1 << 30), 0]);
            let r: Vec<i64> = (0..cnt).map(|i| if i % 3 == 0 { big } else if i % 3 == 1 { -big } else { 0 }).collect();
            let parts = vec![if big.abs() < (1 << 30) && rng.next() % 2 == 0 { PartSpec::Escaped(31, r) } else { PartSpec::Rice(if m1 { 30 } else { 14 }, r) }];
            s.body = SubSpec::Fixed { order, warm_up: warm, method1: m1, parts };
        }
        "stereo_extreme" => {
            // decorrelated stereo whose two subframes hold opposite extremes: the reconstruction of
            // left/right leaves the frame's bit depth
            if !(8..=10).contains(&spec.assignment) {
                return false;
            }
            let pat = rng.next() % 4;
            for (k, s) in spec.subs.iter_mut().enumerate() {
                s.wasted = 0;
                let (lo, hi) = (-(1i64 << (s.bits - 1)), (1i64 << (s.bits - 1)) - 1);
                let v = if (k as u64 + pat) % 2 == 0 { hi } else { lo };
                s.body = if pat < 2 {
                    SubSpec::Constant { sample: v }
                } else {
                    SubSpec::Verbatim { samples: (0..n).map(|i| if i % 2 == 0 { v } else { -1 - v }).collect() }
                };
            }
        }
        "side_doubling" => {
            // legal grammar: the side channel of a decorrelated pair predicted by s[i] = 2 * s[i-1] from a
            // warm-up at the bottom of its range — it doubles until it reaches the end of the i64 range
            // (and wraps to 0): reconstruction arithmetic at its limit
            if !(8..=10).contains(&spec.assignment) || n < 4 {
                return false;
            }
            let k = match spec.assignment {
                9 => 0,
                _ => 1,
            };
            let s = &mut spec.subs[k];
            s.wasted = 0;
            let lo = -(1i64 << (s.bits - 1));
            let m1 = rng.next() % 2 == 0;
            s.body = SubSpec::Lpc { order: 1, warm_up: vec![lo], precision: 3, shift: 0, coefs: vec![2], method1: m1, parts: vec![PartSpec::Zero(n - 1)] };
            // the other channel at either end of its range, or quiet
            let o = &mut spec.subs[1 - k];
            o.wasted = 0;
            let (olo, ohi) = (-(1i64 << (o.bits - 1)), (1i64 << (o.bits - 1)) - 1);
            o.body = SubSpec::Constant { sample: *ch.pick("bent.doubling.other", &[olo, ohi, 0, 1, -1]) };
        }
        "sample_bits_off" => {
            let s = &mut spec.subs[si];
            let eb = s.bits.saturating_sub(s.wasted).clamp(1, 40);
            s.bend.sample_bits = Some(if rng.next() % 2 == 0 { (eb + 1).min(40) } else { eb.saturating_sub(1) });
        }
        "bs_code_0" => spec.bend.bs_code = Some(0),
        "rate_15" => spec.rate_code = 15,
        "assign_reserved" => spec.assignment = 11 + (rng.next() % 5) as u8,
        "bps_3" => spec.bps_code = 3,
        "reserved_bit" => spec.bend.reserved_bit = Some(1),
        "number_overlong" => {
            let v = spec.number;
            spec.bend.number_bytes = Some(match ch.draw("bent.overlong", 3) {
                0 => vec![0xC0 | ((v >> 6) & 0x1F) as u8, 0x80 | (v & 0x3F) as u8],
                1 => vec![0xE0, 0x80 | ((v >> 6) & 0x3F) as u8, 0x80 | (v & 0x3F) as u8],
                _ => vec![0xFC, 0x80, 0x80, 0x80, 0x80 | ((v >> 6) & 0x3F) as u8, 0x80 | (v & 0x3F) as u8],
            });
        }
        "number_bad_cont" => {
            spec.bend.number_bytes = Some(match ch.draw("bent.badcont", 3) {
                0 => vec![0xC2, 0x00],
                1 => vec![0xE1, 0x80, 0xC0],
                _ => vec![0x80],
            });
        }
        "number_lead_ff" => spec.bend.number_bytes = Some(vec![0xFF]),
        "number_7byte" => {
            // 36-bit number: only a sample number (variable blocking) may be this long
            spec.bend.number_bytes = Some(vec![0xFE, 0x80 | (rng.next() % 64) as u8, 0x80, 0x80, 0x80, 0x80, 0x80 | (spec.number & 0x3F) as u8]);
        }
        "bs_65536" => {
            spec.bend.bs_code = Some(7);
            spec.bend.bs_ext = Some(0xFFFF);
        }
        "bs_ext_mismatch" => {
            let wide = rng.next() % 2 == 0;
            spec.bend.bs_code = Some(if wide { 7 } else { 6 });
            let d = *ch.pick("bent.bsdelta", &[1i64, -1, 7, -7, 200, 60000]);
            let v = (n as i64 + d - 1).clamp(0, if wide { 0xFFFE } else { 0xFF });
            if v as usize == n - 1 {
                return false;
            }
            spec.bend.bs_ext = Some(v as u32);
        }
        "rate_ext" => spec.rate_code = *ch.pick("bent.rate", &[12u8, 13, 14, 0, 1, 10]),
        "bps_from_streaminfo" => spec.bps_code = 0,
        "sync_bad" => spec.bend.sync = Some(*ch.pick("bent.sync", &[0x3FFCu16, 0x7FFD, 0x7FF8, 0x7FFE, 0])),
        "footer_pad_ones" => spec.bend.footer_pad_ones = true,
        "escape_zero_width" => {
            let Some(k) = with_res else { return false };
            let parts = match &mut spec.subs[k].body {
                SubSpec::Fixed { parts, .. } | SubSpec::Lpc { parts, .. } => parts,
                _ => unreachable!(),
            };
            // non-zero residuals written with escape width 0: nothing is written, all read as 0
            let pi = (rng.next() % parts.len() as u64) as usize;
            let cnt = match &parts[pi] {
                PartSpec::Rice(_, r) | PartSpec::Escaped(_, r) => r.len(),
                PartSpec::Zero(c) => *c,
            };
            parts[pi] = PartSpec::Escaped(0, vec![1; cnt]);
        }
        _ => return false,
    }
    true
}

pub fn run(ctx: &mut Ctx) -> R {
    let ch = ctx.ch.clone();
    let mut rng = Xoshiro::new(ch.raw("bent.seed"));
    let (bps, bps_code) = *ch.pick("bent.bps", &[(16u32, 4u8), (8, 1), (12, 2), (20, 5), (24, 6), (32, 7)]);
    let assign = ch.draw("bent.assign", 8);
    let channels: usize = match assign {
        0 => 1,
        1..=4 => 2,
        _ => 3 + (rng.next() % 6) as usize,
    };
    let bend = *ch.pick("bent.kind", BENDS);
    let small = matches!(bend, "order_gt_block" | "lpc_order_32_small_block") || ch.draw("bent.small", 8) == 7;
    let n_big = *ch.pick("bent.n", &[16usize, 17, 32, 48, 64, 23, 192, 256]);
    let n_bent = if small { 1 + ch.draw("bent.n.small", 8) as usize } else { n_big };
    // position of the bent frame; a short frame must be the last one
    let pos = if small { 2 } else { ch.draw("bent.pos", 3) as usize };
    let mut specs = Vec::new();
    let mut pcm: Vec<Vec<i32>> = Vec::new();
    for k in 0..3usize {
        let n = if k == pos { n_bent } else { n_big };
        let Some(m) = make_frame(&ch, &mut rng, bps, bps_code, assign, channels, n, k as u64) else {
            ctx.eval(0, false);
            return Ok(());
        };
        let mut inter = Vec::with_capacity(n * channels);
        for i in 0..n {
            for c in &m.chans {
                inter.push(c[i] as i32);
            }
        }
        pcm.push(inter);
        specs.push(m.spec);
    }
    let good: Vec<Vec<u8>> = specs.iter().map(refflac::write_frame).collect();
    let mut bent_spec = specs[pos].clone();
    let mut detail = String::new();
    if !apply_bend(bend, &ch, &mut rng, &mut bent_spec, &mut detail) {
        ctx.eval(0, false);
        probe("bent_not_applicable_to_this_frame");
        return Ok(());
    }
    if ctx.tier == Tier::Thorough && ch.draw("bent.second", 4) == 0 {
        // two deviations in one frame
        let second = *ch.pick("bent.kind2", BENDS);
        let mut d2 = String::new();
        if second != bend && apply_bend(second, &ch, &mut rng, &mut bent_spec, &mut d2) {
            detail = format!("{detail} + {second}{d2}");
            probe("bent_two_deviations_in_one_frame");
        }
    }
    let bent_frame = refflac::write_frame(&bent_spec);
    let mut frames = good.clone();
    frames[pos] = bent_frame.clone();
    let total: u64 = (2 * n_big + n_bent) as u64;
    let max_block = n_big.max(n_bent) as u16;
    let base = assemble(44100, channels as u8, bps, max_block, total, &good);
    let bytes = assemble(44100, channels as u8, bps, max_block, total, &frames);
    let label = format!("frame {pos} bent: {bend}{detail}");
    ctx.describe(|| format!("{label}; bits={bps} channels={channels} assignment={assign} block={n_big}/{n_bent} file={} bytes (bent frame {} bytes)", bytes.len(), bent_frame.len()));
    ctx.api(71, BENDS.iter().position(|b| *b == bend).unwrap_or(0) as u64);
    let rs = match refflac::parse_stream(&base, 0) {
        Ok(r) if r.is_valid() && r.pcm() == pcm.concat() => r,
        other => {
            return viol("HARNESS-PANIC@generator", format!("generator-made baseline is not valid per refflac: {:?}", other.map(|r| (r.end, r.hard))));
        }
    };
    probe("bent_frame_built");
    let item = Item { bytes: base.clone(), channels, block: max_block as usize, rs, desc: String::new() };
    let rs_alt = refflac::parse_stream(&bytes, 0).ok();
    let alt_valid = rs_alt.as_ref().map(|r| r.is_valid()).unwrap_or(false);
    if alt_valid {
        probe("bent_frame_still_valid_per_refflac");
    } else {
        probe("bent_frame_invalid_per_refflac");
    }
    let pat = Choices::generate(ch.raw("bent.pattern"));
    let thorough = ctx.tier == Tier::Thorough;
    match ctx.prop.as_str() {
        "C04" => {
            let rot = ch.draw("bent.rot", N_ENTRY as u64) as usize;
            let k = if thorough { N_ENTRY } else { 9 };
            for i in 0..k {
                c04_one(ctx, &item, &bytes, &label, (rot + i * 2 + (i >= 9) as usize) % N_ENTRY, &pat)?;
            }
            // the raw-frame readers directly on the frames (no STREAMINFO)
            raw_readers(ctx, &frames, pos, &label, true)?;
        }
        "C05" => {
            // the range of the coded number is not an entry of a code table: not judged as must-reject
            // RFC 9639 9.2.7.3 makes the 32-bit residual range a MUST of the stream ("to ensure that decoders
            // can use 32-bit integers"): a residual outside it is an illegal value although every code is legal
            let wide_residual = rs_alt.as_ref().is_some_and(|r| r.strict.iter().any(|x| x.contains("residual not representable in 32 bits")));
            if wide_residual && alt_valid {
                probe("bent_must_reject_residual_beyond_32_bits");
            }
            let must_reject = (!alt_valid || wide_residual) && !label.contains("number_7byte");
            if must_reject {
                probe("bent_must_reject");
                let flat = pcm.concat();
                for rk in RKINDS {
                    let res = catch_unwind(AssertUnwindSafe(|| decode_all(Cursor::new(&bytes), rk, &pat, 16)));
                    let Ok(r) = res else {
                        let _ = take_panic();
                        ctx.skip_foreign("decoder panicked — C04's matter");
                        continue;
                    };
                    ctx.eval_fp(mix(71, rk as u64), true);
                    if r.err.is_none() {
                        return viol(
                            "silent-accept",
                            format!(
                                "{label}: reader {rk:?} decoded {} samples to the end without an error; the independent reader says: {}",
                                r.samples.len(),
                                rs_alt.as_ref().map(|r| format!("{:?} {:?}", r.end, r.hard.first())).unwrap_or("unparseable".into())
                            ),
                        );
                    }
                    // whole frames only: the untouched frames in front of the bent one, as the original
                    // audio; the bent frame itself (and what follows) only if the independent reader
                    // finds a whole checksum-valid frame there too — the statement's "happen to form
                    // another valid stream" case at frame level; its content is not judged
                    let mut ok = r.samples.is_empty();
                    let mut acc = 0;
                    if let Some(alt) = &rs_alt {
                        for (i, f) in alt.frames.iter().enumerate() {
                            let len = f.block_size as usize * channels;
                            if acc + len > r.samples.len() {
                                break;
                            }
                            if i != pos && i < pcm.len() && f.end - f.start == frames[i].len() && r.samples[acc..acc + len] != pcm[i][..] {
                                break;
                            }
                            acc += len;
                            if acc == r.samples.len() {
                                ok = true;
                                if i >= pos {
                                    probe("bent_frame_is_another_valid_frame_delivered");
                                }
                                break;
                            }
                        }
                    }
                    let _ = &flat;
                    if !ok {
                        return viol(
                            "bad-prefix",
                            format!("{label}: reader {rk:?} delivered {} samples before the error; not whole frames (the genuine ones before the bent frame, then any the independent reader also finds whole and checksum-valid)", r.samples.len()),
                        );
                    }
                }
                match catch_unwind(AssertUnwindSafe(|| flac_codec::decode::verify_reader(Cursor::new(&bytes)))) {
                    Ok(Ok(v)) => return viol("silent-accept", format!("{label}: verify_reader returned Ok({v:?})")),
                    Ok(Err(_)) => {}
                    Err(_) => {
                        let _ = take_panic();
                    }
                }
            } else {
                c05_verify(ctx, &bytes, &label, &rs_alt)?;
            }
        }
        _ => {
            c17_one(ctx, &item, &bytes, &label)?;
            raw_readers(ctx, &frames, pos, &label, false)?;
        }
    }
    Ok(())
}

/// the two raw-frame readers (no STREAMINFO) over the frames up to and including the bent one
fn raw_readers(ctx: &mut Ctx, frames: &[Vec<u8>], pos: usize, label: &str, monitors_only: bool) -> R {
    let mut raw = Vec::new();
    let mut bounds = Vec::new();
    for f in &frames[..=pos] {
        bounds.push((raw.len(), raw.len() + f.len()));
        raw.extend_from_slice(f);
    }
    // a frame-shaped byte run inside the bent frame would be found by the scanning decoder only
    let (bs, be) = bounds[pos];
    let accidental = (bs + 1..be.saturating_sub(1)).any(|o| raw[o] == 0xFF && raw[o + 1] >> 1 == 0b1111100 && refflac::parse_frame(&raw, o, None).is_ok());
    let d = ctx.disk.clone();
    let dec = catch_unwind(AssertUnwindSafe(|| {
        let mut r = FlacStreamReader::new(SimBufRead::new(&d, raw.clone(), Segmentation::Fixed(1 + raw.len() % 13)));
        let mut got: Vec<Result<Vec<i32>, String>> = Vec::new();
        for _ in 0..=pos {
            match r.read() {
                Ok(f) => got.push(Ok(f.samples.to_vec())),
                Err(e) => {
                    got.push(Err(format!("{e:?}")));
                    break;
                }
            }
        }
        got
    }));
    let st = catch_unwind(AssertUnwindSafe(|| {
        let mut c = Cursor::new(&raw);
        let mut out = Vec::new();
        for _ in 0..=pos {
            match Frame::read_subset(&mut c) {
                Ok(f) => {
                    let mut again = Vec::new();
                    let w = f.write_subset(&mut again).map_err(|e| format!("{e:?}"));
                    let exp = expand(&f);
                    out.push(Ok((w.map(|()| again), exp, c.position() as usize)));
                }
                Err(e) => {
                    out.push(Err(format!("{e:?}")));
                    break;
                }
            }
        }
        out
    }));
    let nt = ctx.disk.0.borrow().frame_sized_transfers > 0;
    ctx.eval(pos as u64 + 1, nt);
    let (dgot, sgot) = match (dec, st) {
        (Ok(a), Ok(b)) => (a, b),
        _ => {
            let (loc, msg) = take_panic().unwrap_or_default();
            if monitors_only {
                let v = crate::classify_panic(&loc, &msg);
                return viol(v.class, format!("{label} -> raw-frame readers: {msg}"));
            }
            ctx.skip_foreign(format!("a parser panicked ({loc}: {msg}) — C04's matter"));
            return Ok(());
        }
    };
    if monitors_only {
        return Ok(());
    }
    if accidental {
        probe("bent_accidental_frame_inside_bent_frame");
        return Ok(());
    }
    let d_ok = dgot.len() == pos + 1 && dgot[pos].is_ok();
    let s_ok = sgot.len() == pos + 1 && sgot[pos].is_ok();
    if dgot.len() < pos + 1 || sgot.len() < pos + 1 {
        // a valid generator-made frame before the bent one was refused: scenario synth's subject
        probe("bent_earlier_valid_frame_refused");
        return Ok(());
    }
    if d_ok != s_ok {
        probe("c17_parser_disagreement_seen");
        return viol(
            "parsers-disagree",
            format!(
                "{label}: raw-frame level: the streaming decoder {} the bent frame ({}), the structural parser {} it ({})",
                if d_ok { "accepts" } else { "rejects" },
                dgot.last().map(|x| x.as_ref().err().cloned().unwrap_or_default()).unwrap_or_default(),
                if s_ok { "accepts" } else { "rejects" },
                sgot.last().map(|x| x.as_ref().err().cloned().unwrap_or_default()).unwrap_or_default(),
            ),
        );
    }
    let bend_name = label.split(": ").nth(1).unwrap_or("").split(' ').next().unwrap_or("").to_string();
    probe_dyn(format!("bent.{bend_name}.{}", if s_ok { "accepted_by_both" } else { "rejected_by_both" }));
    if !s_ok {
        probe("bent_rejected_by_both_raw_readers");
        return Ok(());
    }
    probe("bent_accepted_by_both_raw_readers");
    let Ok((rew, exp, endpos)) = &sgot[pos] else { unreachable!() };
    let Ok(ds) = &dgot[pos] else { unreachable!() };
    match exp {
        Err(t) => return viol("parsers-disagree", format!("{label}: structural parser accepted the bent frame but {t}")),
        Ok(e) => {
            if interleave32(e) != *ds {
                return viol("parsers-disagree", format!("{label}: streaming decoder and structural expansion disagree on a frame both accept"));
            }
        }
    }
    // canonical frames must re-serialise to the same bytes
    let consumed = &raw[bs..(*endpos).min(raw.len())];
    if let Ok(rf) = refflac::parse_frame(&raw, bs, None) {
        if rf.canonical() && rf.end == *endpos {
            match rew {
                Err(e) => return viol("reserialise-differs", format!("{label}: the structural parser accepts the frame but cannot write it back: {e}")),
                Ok(again) => {
                    if again[..] != *consumed {
                        return viol("reserialise-differs", format!("{label}: re-serialised bytes differ from the accepted canonical frame"));
                    }
                    probe("bent_accepted_frame_reserialised_identically");
                }
            }
        }
    }
    Ok(())
}
