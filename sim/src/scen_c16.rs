//! C16 — raw frame streams: a sender (FlacStreamWriter), a transport that may insert garbage or
//! drop frames, and a receiver (FlacStreamReader) that must resynchronise without fabricating.

use crate::core::*;
use crate::disk::{Benign, Disk, Segmentation, SimBufRead};
use crate::genr::*;
use crate::monitor::{probe, take_panic};
use crate::refflac::{self, StreamEnd};
use crate::rng::{Choices, Xoshiro, mix};
use flac_codec::decode::FlacStreamReader;
use flac_codec::encode::{FlacStreamWriter, Options};
use std::panic::{AssertUnwindSafe, catch_unwind};

#[derive(Clone, Debug, PartialEq, Eq)]
pub struct Sent {
    pub rate: u32,
    pub channels: u8,
    pub bps: u32,
    pub samples: Vec<i32>,
    pub bytes: Vec<u8>,
}

const SUBSET_RATES: &[u32] = &[44100, 8000, 16000, 22050, 24000, 32000, 48000, 88200, 96000, 176400, 192000, 1000, 254000, 12345, 1, 65534, 100000, 655340, 300];
const SUBSET_BPS: &[u32] = &[16, 8, 12, 20, 24, 32];
/// sample rates that no frame header can carry (neither a table code nor an 8-bit kHz / 16-bit Hz /
/// 16-bit tens-of-Hz extension): a raw stream has no STREAMINFO to refer to, so the stream writer has
/// to refuse them — or whatever it emits must still be decodable from the frame's own header
const UNCODABLE_RATES: &[u32] = &[65537, 99999, 705600, 768000, 1048575, 655351, 655360];
/// bit depths without a frame-header code (only 8, 12, 16, 20, 24, 32 have one): same reasoning
const UNCODABLE_BPS: &[u32] = &[4, 7, 9, 13, 17, 23, 31];

pub fn send(ch: &Choices, disk: &Disk, max_frames: u64, small: bool) -> Result<Vec<Sent>, String> {
    let mut n = 1 + ch.draw("c16.frames", max_frames);
    // sometimes many tiny frames, so that the coded frame number needs a second byte (>= 128)
    let many = !small && ch.draw("c16.many", 20) == 19;
    if many {
        n = 130 + ch.draw("c16.many.n", 12);
        probe("c16_frame_numbers_beyond_127");
    }
    let opts = match ch.draw("c16.opts", 5) {
        4 => Options::default()
            .max_partition_order(ch.draw("c16.part", 16) as u32)
            .unwrap()
            .max_lpc_order(*ch.pick("c16.lpc2", &[None, Some(32u8), Some(4)]))
            .unwrap(),
        0 => Options::default(),
        1 => Options::fast(),
        2 => Options::best(),
        _ => Options::default().max_lpc_order(Some(1 + ch.draw("c16.lpc", 12) as u8)).unwrap().fast_channel_correlation(true),
    };
    let vary = ch.draw("c16.vary", 3) != 0;
    let file = disk.create(Vec::new());
    let ben = if ch.draw("c16.wfaults", 3) == 2 { Benign::draw(ch) } else { Benign::none() };
    let mut w = FlacStreamWriter::new(disk.open(file, ben), opts);
    let mut sent = Vec::new();
    let (mut rate, mut chn, mut bps) = (44100u32, 1u8, 16u32);
    for i in 0..n {
        if i == 0 || vary {
            rate = *ch.pick("c16.rate", SUBSET_RATES);
            if ch.draw("c16.rate.uncodable", 10) == 9 {
                rate = *ch.pick("c16.rate.u", UNCODABLE_RATES);
            }
            chn = 1 + *ch.pick("c16.ch", &[0u8, 1, 0, 1, 2, 5, 7]);
            bps = *ch.pick("c16.bps", SUBSET_BPS);
            if ch.draw("c16.bps.uncodable", 12) == 11 {
                bps = *ch.pick("c16.bps.u", UNCODABLE_BPS);
            }
            if i > 0 {
                probe("c16_parameter_change_between_frames");
            }
        }
        let len = if small || many {
            1 + ch.draw("c16.len.s", 24) as usize
        } else if ch.draw("c16.len.big", 16) == 15 {
            // block lengths beyond the "streamable subset" limits and at the top of the 16-bit field
            probe("c16_block_longer_than_4608");
            *ch.pick("c16.len.b", &[4609usize, 8192, 16384, 16385, 32768, 65535])
        } else if !small && ch.draw("c16.len.toolong", 40) == 39 {
            // more samples per channel than a frame header can state: to be refused, nothing emitted
            probe("c16_block_longer_than_65535");
            *ch.pick("c16.len.x", &[65536usize, 65537, 65552, 70000, 131071, 131073, 65536 + 4096])
        } else if ch.draw("c16.len.mode", 4) == 3 {
            *ch.pick("c16.len.c", &[128usize, 256, 192, 576, 1152, 512])
        } else {
            1 + ch.draw("c16.len", 200) as usize
        };
        let pcm = draw_pcm(ch, chn, bps, len);
        let before = disk.len(file);
        let res = w.write(rate, chn, bps, &pcm.inter);
        if UNCODABLE_RATES.contains(&rate) || UNCODABLE_BPS.contains(&bps) || len > 65535 {
            match res {
                Err(_) if disk.len(file) == before && len > 65535 => {
                    probe("c16_too_long_block_refused");
                    continue;
                }
                Err(_) if disk.len(file) == before => {
                    // refused, nothing emitted: the stream is unaffected
                    probe(if UNCODABLE_BPS.contains(&bps) { "c16_uncodable_depth_refused" } else { "c16_uncodable_rate_refused" });
                    continue;
                }
                Err(e) => return Err(format!("frame {i}: rate {rate} / {bps} bits / {len} samples was refused ({e:?}) after {} bytes had been emitted into the stream", disk.len(file) - before)),
                Ok(()) => probe("c16_uncodable_parameters_accepted"),
            }
        } else {
            res.map_err(|e| format!("frame {i} (rate={rate} ch={chn} bits={bps} len={len}): {e:?}"))?;
        }
        let all = disk.data(file);
        sent.push(Sent {
            rate,
            channels: chn,
            bps,
            samples: pcm.inter,
            bytes: all[before..].to_vec(),
        });
    }
    Ok(sent)
}

fn has_sync(b: &[u8]) -> bool {
    b.windows(2).any(|w| w[0] == 0xFF && (w[1] >> 1) == 0b1111100)
}

fn draw_garbage(ch: &Choices, sent: &[Sent]) -> Vec<u8> {
    let mut r = Xoshiro::new(ch.raw("c16.g.seed"));
    let n = 1 + ch.draw("c16.g.len", 40) as usize;
    match ch.draw("c16.g.kind", 5) {
        0 => {
            probe("c16_garbage_no_ff");
            (0..n).map(|_| (r.next() % 255) as u8).collect()
        }
        1 => {
            probe("c16_garbage_ff_only");
            // 0xFF never followed by 1111100x
            let mut v = Vec::new();
            for _ in 0..n {
                v.push(0xFF);
                v.push((r.next() % 0xF0) as u8);
            }
            // the last byte must not pair with the next frame's leading 0xFF either: it cannot (needs 1111100x second)
            v
        }
        2 => {
            probe("c16_garbage_sync_lookalike");
            let mut v: Vec<u8> = (0..n).map(|_| r.next() as u8).collect();
            let at = (r.next() as usize) % v.len();
            v[at] = 0xFF;
            if at + 1 < v.len() {
                v[at + 1] = 0xF8 | (r.next() as u8 & 1);
            } else {
                v.push(0xF8);
            }
            v
        }
        3 => {
            probe("c16_garbage_truncated_real_header");
            let f = &sent[(r.next() as usize) % sent.len()].bytes;
            // strictly shorter than the frame, so that the copy is never a complete valid frame
            let k = 1 + (r.next() as usize) % (f.len().min(12) - 1).max(1);
            f[..k].to_vec()
        }
        _ => {
            probe("c16_garbage_all_ff");
            vec![0xFF; n]
        }
    }
}

#[derive(Debug)]
struct Received {
    frames: Vec<(u32, u8, u32, Vec<i32>)>,
    errors: Vec<String>,
    ended_eof: bool,
}

fn receive(src: SimBufRead, max_reads: usize) -> Received {
    let mut r = FlacStreamReader::new(src);
    let mut out = Received {
        frames: Vec::new(),
        errors: Vec::new(),
        ended_eof: false,
    };
    for _ in 0..max_reads {
        match r.read() {
            Ok(f) => out.frames.push((f.sample_rate, f.channels, f.bits_per_sample, f.samples.to_vec())),
            Err(flac_codec::Error::Io(e)) if e.kind() == std::io::ErrorKind::Interrupted => {
                // a caller retries an interrupted call
                out.errors.push("Interrupted (retried)".into());
            }
            Err(flac_codec::Error::Io(e)) if e.kind() == std::io::ErrorKind::UnexpectedEof => {
                out.ended_eof = true;
                break;
            }
            Err(e) => out.errors.push(format!("{e:?}")),
        }
    }
    out
}

fn same(a: &(u32, u8, u32, Vec<i32>), s: &Sent) -> bool {
    a.0 == s.rate && a.1 == s.channels && a.2 == s.bps && a.3 == s.samples
}

fn guarded_receive(ctx: &mut Ctx, d: &Disk, src: SimBufRead, label: &str, max_reads: usize) -> Result<Received, Violation> {
    match catch_unwind(AssertUnwindSafe(|| receive(src, max_reads))) {
        Ok(r) => Ok(r),
        Err(_) => {
            let (loc, msg) = take_panic().unwrap_or_default();
            let v = crate::classify_panic(&loc, &msg);
            ctx.adopt_trace(d, label);
            Err(Violation {
                class: v.class,
                msg: format!("{label}: {msg}"),
            })
        }
    }
}

fn check_clean(ctx: &mut Ctx, d: &Disk, got: &Received, sent: &[Sent], label: &str) -> R {
    let hard_errors: Vec<&String> = got.errors.iter().filter(|e| !e.starts_with("Interrupted")).collect();
    if got.frames.len() != sent.len() || !got.frames.iter().zip(sent).all(|(a, s)| same(a, s)) || !hard_errors.is_empty() {
        ctx.adopt_trace(d, label);
        let idx: Vec<String> = got
            .frames
            .iter()
            .map(|a| sent.iter().position(|s| same(a, s)).map(|i| i.to_string()).unwrap_or("?".into()))
            .collect();
        let class = if got.frames.iter().any(|a| !sent.iter().any(|s| same(a, s))) { "frame-fabricated" } else { "frame-lost" };
        return viol(
            class,
            format!(
                "{label}: clean stream of {} frames, reader returned frames [{}] with errors {:?}",
                sent.len(),
                idx.join(","),
                got.errors
            ),
        );
    }
    if !got.ended_eof {
        ctx.adopt_trace(d, label);
        return viol("frame-fabricated", format!("{label}: reader did not report end of stream after the last frame"));
    }
    Ok(())
}

pub fn run(ctx: &mut Ctx) -> R {
    let ch = ctx.ch.clone();
    let sent = match catch_unwind(AssertUnwindSafe(|| send(&ch, &ctx.disk, 8, false))) {
        Ok(Ok(s)) => s,
        Ok(Err(e)) => return viol("frame-lost", format!("FlacStreamWriter refused legal subset parameters: {e}")),
        Err(_) => {
            let (loc, msg) = take_panic().unwrap_or_default();
            let v = crate::classify_panic(&loc, &msg);
            return viol(v.class, format!("FlacStreamWriter::write: {msg}"));
        }
    };
    if sent.is_empty() {
        ctx.eval(0, false); // every call was (rightly) refused: nothing on the wire
        return Ok(());
    }
    let clean: Vec<u8> = sent.iter().flat_map(|s| s.bytes.clone()).collect();
    ctx.describe(|| {
        format!(
            "{} frames: {}",
            sent.len(),
            sent.iter()
                .map(|s| format!("(rate={} ch={} bits={} n={} {}B)", s.rate, s.channels, s.bps, s.samples.len() / s.channels as usize, s.bytes.len()))
                .collect::<Vec<_>>()
                .join(" ")
        )
    });
    // (1) every emitted frame is decodable from its own header alone
    let (rf, end) = refflac::parse_raw_frames(&clean);
    if end != StreamEnd::Clean || rf.len() != sent.len() {
        return viol("frame-lost", format!("independent header-only decode of the emitted bytes stops with {end:?} after {} of {} frames", rf.len(), sent.len()));
    }
    for (i, (f, s)) in rf.iter().zip(&sent).enumerate() {
        if f.rate != Some(s.rate) || f.channels != s.channels || f.bps != Some(s.bps) || f.interleaved() != s.samples {
            return viol(
                "frame-fabricated",
                format!("frame {i} is not self-describing: header says rate={:?} ch={} bits={:?}, written rate={} ch={} bits={}", f.rate, f.channels, f.bps, s.rate, s.channels, s.bps),
            );
        }
        if f.number != i as u64 {
            probe("c16_frame_number_mismatch_noted");
        }
        if let Some(x) = f.strict.first() {
            return viol("frame-fabricated", format!("frame {i} violates the format: {x}"));
        }
    }
    ctx.api(50, sent.len() as u64);
    let mode = ch.draw("c16.mode", 4);
    let seg = match ch.draw("c16.seg", 5) {
        0 => Segmentation::Whole,
        1 => Segmentation::Fixed(1),
        2 => Segmentation::Fixed(1 + ch.draw("c16.seg.k", 40) as usize),
        3 => Segmentation::Random(1 + ch.draw("c16.seg.max", 64) as usize),
        _ => Segmentation::Random(3),
    };
    let eintr = *ch.pick("c16.eintr", &[0u32, 0, 30, 200, 500]);
    if mode <= 1 {
        // (2) clean stream under a drawn segmentation and EINTR rate
        let mut src = SimBufRead::new(&ctx.disk, clean.clone(), seg.clone());
        src.eintr_rate = eintr;
        let d = ctx.disk.clone();
        let got = guarded_receive(ctx, &d, src, "clean stream", sent.len() * 8 + 50)?;
        let nt = d.0.borrow().frame_sized_transfers > 0;
        ctx.eval(1, nt);
        return check_clean(ctx, &d, &got, &sent, &format!("clean stream, segmentation {seg:?}, EINTR rate {eintr}/1000"));
    }
    // (3)/(4) transport with garbage and/or drops
    let mut wire: Vec<u8> = Vec::new();
    let mut surviving: Vec<&Sent> = Vec::new();
    let mut garbage_all: Vec<Vec<u8>> = Vec::new();
    let mut real_starts: Vec<usize> = Vec::new();
    let mut dropped = false;
    let mut desc = String::new();
    for (i, s) in sent.iter().enumerate() {
        if ch.draw("c16.t.garbage", 3) != 0 || i == 0 {
            let g = draw_garbage(&ch, &sent);
            desc.push_str(&format!("G{} ", g.len()));
            wire.extend_from_slice(&g);
            garbage_all.push(g);
        }
        if mode == 3 && ch.draw("c16.t.drop", 4) == 3 {
            dropped = true;
            probe("c16_frame_dropped_by_transport");
            desc.push_str(&format!("(drop F{i}) "));
            continue;
        }
        desc.push_str(&format!("F{i} "));
        real_starts.push(wire.len());
        wire.extend_from_slice(&s.bytes);
        surviving.push(s);
    }
    if ch.draw("c16.t.tail", 3) == 2 {
        let g = draw_garbage(&ch, &sent);
        desc.push_str(&format!("G{} ", g.len()));
        wire.extend_from_slice(&g);
        garbage_all.push(g);
    }
    ctx.note(|| format!("wire: {desc}"));
    let mut src = SimBufRead::new(&ctx.disk, wire.clone(), seg.clone());
    src.eintr_rate = eintr;
    let d = ctx.disk.clone();
    let got = guarded_receive(ctx, &d, src, "stream with garbage", wire.len() + 50)?;
    let nt = d.0.borrow().frame_sized_transfers > 0;
    ctx.eval(2, nt);
    // every returned frame is one of the written frames, in original order — or an accidentally
    // checksum-valid frame somewhere on the wire, i.e. one that does not start where a real frame
    // starts (e.g. a truncated copy of a frame completed by the first byte of the frame that follows
    // it). Such a frame is on the wire; returning it is not fabrication, whatever it contains.
    // The assignment is searched (not greedy): an accidental frame may equal a written frame.
    let accidental: Vec<bool> = got
        .frames
        .iter()
        .map(|a| {
            (0..wire.len().saturating_sub(1)).any(|i| {
                wire[i] == 0xFF
                    && (wire[i + 1] >> 1) == 0b1111100
                    && !real_starts.contains(&i)
                    && matches!(refflac::parse_frame(&wire, i, None), Ok(f) if f.interleaved() == a.3 && f.rate == Some(a.0) && f.channels == a.1)
            })
        })
        .collect();
    // best[k][next] = fewest written frames skipped when returned frames k.. are explained with the
    // written frames from index `next` on (None = impossible)
    let (nk, ns) = (got.frames.len(), surviving.len());
    let mut best: Vec<Vec<Option<usize>>> = vec![vec![None; ns + 1]; nk + 1];
    for next in 0..=ns {
        best[nk][next] = Some(0);
    }
    for k in (0..nk).rev() {
        for next in 0..=ns {
            let mut b: Option<usize> = None;
            if accidental[k] {
                b = best[k + 1][next];
            }
            for p in next..ns {
                if same(&got.frames[k], &surviving[p]) {
                    if let Some(rest) = best[k + 1][p + 1] {
                        let cost = rest + (p - next);
                        if b.map(|x| cost < x).unwrap_or(true) {
                            b = Some(cost);
                        }
                    }
                }
            }
            best[k][next] = b;
        }
    }
    if best[0][0].is_none() {
        // report the first returned frame that cannot be explained in any assignment of its predecessors
        let mut k_bad = 0;
        for k in 0..nk {
            let reachable = (0..=ns).any(|n| best[k][n].is_some());
            if !reachable {
                k_bad = k;
            }
        }
        let a = &got.frames[k_bad.min(nk - 1)];
        if sent.iter().any(|s| same(a, s)) {
            return viol("frame-fabricated", format!("the returned frames cannot be matched to the written frames in order: frame #{k_bad} is a written frame but out of order or duplicated (wire: {desc})"));
        }
        return viol(
            "frame-fabricated",
            format!("returned frame #{k_bad} (rate={} ch={} bits={} {} samples) is not one of the written frames (wire: {desc})", a.0, a.1, a.2, a.3.len()),
        );
    }
    if accidental.iter().any(|x| *x) {
        probe("c16_accidental_valid_frame_in_garbage");
    }
    // written frames not returned, in the assignment that loses fewest
    let mut lost = Vec::new();
    {
        let (mut k, mut next) = (0usize, 0usize);
        while k < nk {
            let target = best[k][next].unwrap();
            let mut advanced = false;
            for p in next..ns {
                if same(&got.frames[k], &surviving[p]) && best[k + 1][p + 1].map(|r| r + (p - next)) == Some(target) {
                    for q in next..p {
                        lost.push(q);
                    }
                    next = p + 1;
                    advanced = true;
                    break;
                }
            }
            if !advanced {
                // explained as an accidental frame
            }
            k += 1;
        }
        for q in next..ns {
            lost.push(q);
        }
    }
    // (4) bytes without the sync pattern cost no frame
    let sync_free = garbage_all.iter().all(|g| !has_sync(g));
    if sync_free && !dropped && !lost.is_empty() {
        return viol(
            "frame-lost",
            format!("inserted bytes contain no sync pattern, yet frames {lost:?} of {} were not returned (wire: {desc}; errors {:?})", surviving.len(), got.errors),
        );
    }
    if !lost.is_empty() {
        probe("c16_frame_lost_to_lookalike_or_drop");
    }
    Ok(())
}

/// exhaustive part: every split point of the buffered source, and EINTR at every fill_buf call
pub fn run_sweeps(ctx: &mut Ctx) -> R {
    let ch = ctx.ch.clone();
    let scratch = Disk::new(&ctx.ch, false);
    let sent = match send(&ch, &scratch, 3, true) {
        Ok(s) => s,
        Err(e) => return viol("frame-lost", format!("FlacStreamWriter refused legal subset parameters: {e}")),
    };
    let clean: Vec<u8> = sent.iter().flat_map(|s| s.bytes.clone()).collect();
    if clean.len() > 1024 || sent.is_empty() {
        ctx.eval(0, false);
        return Ok(());
    }
    ctx.describe(|| format!("sweeps over a clean stream of {} frames / {} bytes", sent.len(), clean.len()));
    let starts: Vec<usize> = sent
        .iter()
        .scan(0usize, |acc, s| {
            let st = *acc;
            *acc += s.bytes.len();
            Some(st)
        })
        .collect();
    // every single split point
    for cut in 1..clean.len() {
        let d = Disk::new(&ctx.ch, ctx.trace);
        let src = SimBufRead::new(&d, clean.clone(), Segmentation::Cuts(vec![cut]));
        if starts.iter().any(|s| s + 1 == cut) {
            probe("c16_sync_split_across_refill");
        }
        let label = format!("source split at byte {cut}");
        let got = guarded_receive(ctx, &d, src, &label, sent.len() * 4 + 20)?;
        ctx.extra_events += d.seq();
        ctx.eval_fp(mix(d.fp(), 1), true);
        check_clean(ctx, &d, &got, &sent, &label)?;
    }
    // EINTR at every fill_buf call index, for two segmentations
    for seg in [Segmentation::Whole, Segmentation::Fixed(1 + ch.draw("c16.sw.seg", 7) as usize)] {
        // count the calls of the fault-free twin
        let d0 = Disk::new(&ctx.ch, false);
        let src0 = SimBufRead::new(&d0, clean.clone(), seg.clone());
        let calls = {
            let mut r = FlacStreamReader::new(src0);
            let mut n = 0;
            loop {
                match r.read() {
                    Ok(_) => n += 1,
                    Err(_) => break,
                }
                if n > 100 {
                    break;
                }
            }
            d0.seq()
        };
        for e in 0..calls.min(4000) {
            let d = Disk::new(&ctx.ch, ctx.trace);
            let mut src = SimBufRead::new(&d, clean.clone(), seg.clone());
            src.eintr_at = vec![e];
            let label = format!("EINTR at fill_buf call {e} of {calls}, segmentation {seg:?}");
            let got = guarded_receive(ctx, &d, src, &label, sent.len() * 4 + 20)?;
            ctx.extra_events += d.seq();
            ctx.eval_fp(mix(d.fp(), 2), d.faults_in_run() > 0);
            check_clean(ctx, &d, &got, &sent, &label)?;
        }
    }
    Ok(())
}


/// raw frame streams judged for C02 (conformance, by refflac only) and C19 (size bound)
pub fn run_raw(ctx: &mut Ctx) -> R {
    let ch = ctx.ch.clone();
    let sent = match send(&ch, &ctx.disk, 8, false) {
        Ok(s) => s,
        Err(e) => {
            ctx.skip_foreign(format!("stream writer refused parameters: {e} (C16's matter)"));
            return Ok(());
        }
    };
    let clean: Vec<u8> = sent.iter().flat_map(|s| s.bytes.clone()).collect();
    ctx.describe(|| format!("raw stream of {} frames, {} bytes", sent.len(), clean.len()));
    let (rf, end) = refflac::parse_raw_frames(&clean);
    let nt = ctx.disk.0.borrow().frame_sized_transfers > 0;
    ctx.eval(3, nt);
    if ctx.is("C02") {
        if end != StreamEnd::Clean || rf.len() != sent.len() {
            return viol("nonconforming:frame", format!("raw stream: independent decode stops with {end:?} after {} of {} frames", rf.len(), sent.len()));
        }
        for (i, (f, s)) in rf.iter().zip(&sent).enumerate() {
            if let Some(x) = f.strict.first() {
                return viol("nonconforming:rule", format!("raw frame {i}: {x}"));
            }
            if f.interleaved() != s.samples || f.rate != Some(s.rate) || f.channels != s.channels || f.bps != Some(s.bps) {
                return viol("nonconforming:pcm", format!("raw frame {i}: independent decoder reconstructs different PCM or parameters"));
            }
            if f.variable || f.number != i as u64 {
                return viol("nonconforming:numbering", format!("raw frame {i} carries number {} (variable={})", f.number, f.variable));
            }
        }
    } else {
        for (i, (f, s)) in rf.iter().zip(&sent).enumerate() {
            let n = (s.samples.len() / s.channels as usize) as u64;
            let bound = crate::scen_rt::frame_bound(n, s.channels as u64, s.bps as u64);
            let len = (f.end - f.start) as u64;
            if len > bound {
                return viol("frame-too-large", format!("raw frame {i}: {len} bytes for {n} samples x {} ch x {} bits; bound {bound}", s.channels, s.bps));
            }
        }
    }
    Ok(())
}
