//! C14 — an interrupted encode leaves decodable complete frames: crash after every write event
//! and (for small outputs) at every byte of the append stream.

use crate::core::*;
use crate::disk::{Benign, Disk};
use crate::genr::*;
use crate::monitor::{probe, take_panic};
use crate::refflac::{self, StreamEnd};
use crate::rng::{Choices, mix};
use crate::world::*;
use std::panic::{AssertUnwindSafe, catch_unwind};

/// The call that would exceed the declared total is refused — and the encode is abandoned right there.
/// Whatever that call put on the medium before failing is part of "the bytes already written": a
/// complete frame among them that no decoder will ever deliver (the header still says the declared
/// total) is a completely written frame that is not recovered.
fn run_overfill(ctx: &mut Ctx) -> R {
    use flac_codec::encode::FlacSampleWriter;
    use std::mem::ManuallyDrop;
    let ch = ctx.ch.clone();
    let mut cfg = draw_cfg(&ch, true);
    cfg.block = 16 + ch.draw("c14o.block", 80) as u16;
    cfg.declare_total = true;
    cfg.offset = 0;
    let blocks = 1 + ch.draw("c14o.blocks", 3) as usize;
    let frames = blocks * cfg.block as usize + *ch.pick("c14o.rem", &[0usize, 1, 7]) ;
    let pcm = draw_pcm(&ch, cfg.channels, cfg.bps, frames);
    let surplus_frames = cfg.block as usize * (1 + ch.draw("c14o.surplus", 2) as usize);
    let surplus = draw_pcm(&ch, cfg.channels, cfg.bps, surplus_frames);
    ctx.describe(|| format!("over-filled then abandoned encode {} declared frames={} surplus frames={}", cfg.describe(), frames, surplus_frames));
    probe("c14_overfill_then_crash");
    let file = ctx.disk.create(Vec::new());
    let sink = ctx.disk.open(file, Benign::none());
    let res = catch_unwind(AssertUnwindSafe(|| {
        let mut w = ManuallyDrop::new(FlacSampleWriter::new(sink, cfg.options(), cfg.rate, cfg.bps, cfg.channels, Some(pcm.inter.len() as u64)).map_err(|e| format!("{e:?}"))?);
        w.write(&pcm.inter).map_err(|e| format!("{e:?}"))?;
        // the surplus: refused, or accepted into a buffer — either way the process dies now
        let r = w.write(&surplus.inter);
        Ok::<bool, String>(r.is_err())
    }));
    let refused = match res {
        Ok(Ok(x)) => x,
        Ok(Err(e)) => {
            ctx.skip_foreign(format!("encode failed before the over-fill: {e}"));
            return Ok(());
        }
        Err(_) => {
            let (loc, msg) = take_panic().unwrap_or_default();
            let v = crate::classify_panic(&loc, &msg);
            return viol(v.class, format!("writing beyond the declared total panicked: {msg}"));
        }
    };
    if refused {
        probe("c14_overfill_refused");
    }
    let medium = ctx.disk.data(file);
    // the finished twin of the declared part tells where the legitimate frames are
    let mut cur = std::io::Cursor::new(Vec::new());
    {
        let Ok(mut w) = FlacSampleWriter::new(&mut cur, cfg.options(), cfg.rate, cfg.bps, cfg.channels, Some(pcm.inter.len() as u64)) else {
            ctx.skip_foreign("twin failed");
            return Ok(());
        };
        if w.write(&pcm.inter).is_err() || w.finalize().is_err() {
            ctx.skip_foreign("twin failed");
            return Ok(());
        }
    }
    let twin = cur.into_inner();
    let Ok(rs) = refflac::parse_stream(&twin, 0) else {
        ctx.skip_foreign("refflac cannot parse the twin");
        return Ok(());
    };
    let last_end = rs.frames.last().map(|f| f.end).unwrap_or(rs.meta.audio_start);
    // frames of the declared part that are on the medium
    let mut complete = 0usize;
    for f in &rs.frames {
        if f.end <= medium.len() && medium[f.start..f.end] == twin[f.start..f.end] {
            complete += f.block_size as usize * cfg.channels as usize;
        } else {
            break;
        }
    }
    let d = decode_all(std::io::Cursor::new(&medium), RKind::SampleToEnd, &ch, cfg.block as usize);
    let nt = true;
    ctx.eval(1, nt);
    if d.samples != pcm.inter[..complete.min(pcm.inter.len())] {
        return viol(
            "crash-prefix-undecodable",
            format!("over-filled, abandoned encode: {} samples of the declared part are completely on the medium, the decoder delivered {} ({:?})", complete, d.samples.len(), d.err),
        );
    }
    // a complete frame beyond the declared part?
    if medium.len() > last_end && complete == pcm.inter.len() {
        if let Ok(f) = refflac::parse_frame(&medium, last_end, Some(&rs.meta.si)) {
            if f.end <= medium.len() {
                return viol(
                    "crash-prefix-undecodable",
                    format!(
                        "over-filled, abandoned encode: the refused call left a complete, checksum-valid frame of {} samples at byte {} of the medium (after the {} declared samples); the header declares the total, so no decoder delivers it (decoder: {} samples, {:?})",
                        f.block_size, last_end, pcm.inter.len(), d.samples.len(), d.err
                    ),
                );
            }
        }
        probe("c14_overfill_left_partial_bytes");
    }
    Ok(())
}

pub fn run(ctx: &mut Ctx) -> R {
    if ctx.ch.draw("c14.overfill", 8) == 7 {
        return run_overfill(ctx);
    }
    let ch = ctx.ch.clone();
    let mut cfg = draw_cfg(&ch, true);
    cfg.block = 16 + ch.draw("c14.block", 80) as u16;
    cfg.padding = *ch.pick("c14.pad", &[Some(8u32), None, Some(100), Some(40), Some(4096)]);
    let mut frames = draw_len(&ch, &cfg, 4);
    // sometimes many short frames: whatever the encoder does every n-th frame happens before the crash
    if ch.draw("c14.many", 6) == 5 {
        cfg.block = 16;
        cfg.channels = cfg.channels.min(2);
        frames = 16 * (33 + ch.draw("c14.many.n", 48) as usize) + ch.draw("c14.many.rem", 16) as usize;
        probe("c14_more_than_32_frames");
    }
    let pcm = draw_pcm(&ch, cfg.channels, cfg.bps, frames);
    let kind = draw_wkind(&ch);
    let chunks = draw_write_chunks(&ch, kind, &pcm);
    let wcap = *ch.pick("c14.wcap", &[0usize, 0, 16, 64, 300, 8192]);
    let declared = cfg.declare_total.then(|| total_for(kind, &pcm));
    let off = cfg.offset;
    ctx.describe(|| {
        format!(
            "interrupted encode {} frames={} writer={kind:?} chunks={} bufwriter={wcap}",
            cfg.describe(),
            pcm.frames,
            short_vec(&chunks, 8)
        )
    });
    if cfg.declare_total {
        probe("c14_declared");
    } else {
        probe("c14_undeclared");
    }
    // the encode that gets killed: writer leaked, nothing finalized, buffered bytes lost
    let file = ctx.disk.create(vec![0xA5; off]);
    ctx.disk.record_writes(true);
    let f = ctx.disk.open(file, Benign::none()).set_pos(off as u64);
    let sink = wrap_sink(f, wcap);
    let r = encode(sink, &cfg, &pcm, kind, &chunks, declared, EndMode::Forget, &[], &mut || {});
    ctx.disk.record_writes(false);
    if let Err(e) = r {
        ctx.skip_foreign(format!("encode failed before the crash point: {e:?}"));
        return Ok(());
    }
    let writes = ctx.disk.writes();
    let full = ctx.disk.data(file);
    // Where the frames are comes from a finalized twin of the same encode (finalize neither moves nor
    // rewrites frames — C09), parsed by refflac; what they contain comes from the PCM model.
    let twin_disk = Disk::new(&ctx.ch, false);
    let tf = twin_disk.create(vec![0xA5; off]);
    let tsink = wrap_sink(twin_disk.open(tf, Benign::none()).set_pos(off as u64), wcap);
    if encode(tsink, &cfg, &pcm, kind, &chunks, declared, EndMode::Finalize, &[], &mut || {}).is_err() {
        ctx.skip_foreign("finalized twin failed to encode (C01's matter)");
        return Ok(());
    }
    let twin = twin_disk.data(tf);
    let (audio_start, ends): (usize, Vec<(usize, usize, usize)>) = match refflac::parse_stream(&twin, off) {
        Ok(s) if matches!(s.end, StreamEnd::Clean) => (s.meta.audio_start, s.frames.iter().map(|f| (f.start, f.end, f.block_size as usize)).collect()),
        other => {
            ctx.skip_foreign(format!("refflac cannot parse the finalized twin ({:?}) — C02's matter", other.map(|s| s.end)));
            return Ok(());
        }
    };
    // media states: after every write event, and torn inside each write for small outputs
    let byte_limit = if ctx.tier == Tier::Thorough { 4096 } else { 1500 };
    let torn = full.len() - off <= byte_limit;
    if torn {
        probe("c14_byte_granularity");
    }
    let mut states: Vec<(Vec<u8>, Vec<bool>, String)> = Vec::new();
    let mut med: Vec<u8> = vec![0xA5; off];
    let mut cov: Vec<bool> = vec![true; off];
    states.push((med.clone(), cov.clone(), "before the first write".into()));
    let mut seeked = false;
    for (wi, (_, o, d)) in writes.iter().enumerate() {
        let o = *o as usize;
        if o != med.len() {
            seeked = true;
        }
        let upto: Vec<usize> = if torn && d.len() > 1 { (1..=d.len()).collect() } else { vec![d.len()] };
        for j in upto {
            let mut m2 = med.clone();
            let mut c2 = cov.clone();
            if m2.len() < o + j {
                m2.resize(o + j, 0);
                c2.resize(o + j, false);
            }
            m2[o..o + j].copy_from_slice(&d[..j]);
            for x in &mut c2[o..o + j] {
                *x = true;
            }
            if j == d.len() {
                med = m2.clone();
                cov = c2.clone();
            }
            states.push((m2, c2, format!("after {} of {} bytes of write #{wi} at offset {o}", j, d.len())));
        }
    }
    if seeked {
        probe("c14_encoder_seeked_before_finalize");
    }
    let rot = ch.draw("c14.rot", 11) as usize;
    let pat_seed = ch.raw("c14.pattern");
    let c = cfg.channels as usize;
    for (pi, (prefix, covered, what)) in states.iter().enumerate() {
        let cut = prefix.len();
        // frames whose every byte has reached the medium, counted from the first frame on
        let mut complete = 0usize;
        let mut nframes = 0usize;
        for (st, en, n) in &ends {
            if *en <= covered.len() && covered[*st..*en].iter().all(|b| *b) {
                complete += n;
                nframes += 1;
            } else {
                break;
            }
        }
        let want = &pcm.inter[..(complete * c).min(pcm.inter.len())];
        if cut < audio_start {
            probe("c14_crash_in_metadata");
        } else if ends.iter().any(|(_, e, _)| *e == cut) {
            probe("c14_crash_on_frame_boundary");
        } else {
            probe("c14_crash_inside_frame");
        }
        let prefix = prefix.clone();
        let which = (pi + rot) % 11;
        let d = Disk::new(&ctx.ch, ctx.trace);
        let pf = d.create(prefix);
        let src = d.open(pf, Benign::none()).set_pos(off as u64);
        let pat = Choices::generate(mix(pat_seed, pi as u64));
        let res = catch_unwind(AssertUnwindSafe(|| {
            if which == 10 {
                // verify_reader: must not report a successful verification of samples never written
                let r = flac_codec::decode::verify_reader(src);
                (None, format!("{r:?}"))
            } else {
                let r = decode_all(src, RKINDS[which], &pat, cfg.block as usize);
                (Some(r), String::new())
            }
        }));
        let label = if which == 10 { "verify_reader".to_string() } else { format!("{:?}", RKINDS[which]) };
        match res {
            Err(_) => {
                let (loc, msg) = take_panic().unwrap_or_default();
                let v = crate::classify_panic(&loc, &msg);
                ctx.adopt_trace(&d, &format!("crash {what}, reader {label}"));
                return viol(v.class, format!("crash {what}: reader {label} panicked: {msg}"));
            }
            Ok((Some(r), _)) => {
                ctx.extra_events += d.seq();
                ctx.eval_fp(mix(d.fp(), r.samples.len() as u64), true);
                if r.samples != want {
                    ctx.adopt_trace(&d, &format!("crash {what}, reader {label}"));
                    let class = if r.samples.len() < want.len() && want.starts_with(&r.samples) {
                        "crash-prefix-undecodable"
                    } else {
                        "crash-prefix-wrong-samples"
                    };
                    return viol(
                        class,
                        format!(
                            "crash {what} (medium holds {cut} bytes, metadata ends at {audio_start}): {nframes} completely written frames = {} samples, reader {label} delivered {} (end: {:?})",
                            want.len(),
                            r.samples.len(),
                            r.err
                        ),
                    );
                }
            }
            Ok((None, _verdict)) => {
                ctx.eval_fp(mix(d.fp(), 77), true);
            }
        }
    }
    Ok(())
}

/// C14 at scale: an interrupted encode with more than 65536 complete frames on the medium (whatever counts
/// frames in a narrow type passes its limit before the crash). A few crash points only: everything
/// written, inside the last frame, and on / next to the frame boundaries around number 65536.
pub fn run_big(ctx: &mut Ctx) -> R {
    use flac_codec::encode::{FlacSampleWriter, Options};
    let ch = ctx.ch.clone();
    let frames: usize = *ch.pick("c14big.frames", &[65_600usize, 70_000, 131_200, 65_537]);
    let declared = ch.draw("c14big.declared", 3) == 0;
    let seek = ch.draw("c14big.seek", 3) == 0;
    ctx.describe(|| format!("interrupted encode of {frames} frames of 16 samples, mono 8-bit, length {}, seek table {}", if declared { "declared" } else { "undeclared" }, if seek { "every second" } else { "off" }));
    // every frame holds one value (a CONSTANT subframe) that names the frame
    let pcm: Vec<i32> = (0..frames * 16).map(|i| ((i / 16) % 200) as i32 - 100).collect();
    let mut opts = Options::default().block_size(16).unwrap().max_lpc_order(None).unwrap();
    opts = if seek { opts.seektable_seconds(1) } else { opts.no_seektable() };
    let mut cur = std::io::Cursor::new(Vec::with_capacity(2 << 20));
    {
        let mut w = match FlacSampleWriter::new(&mut cur, opts, 8000, 8, 1, declared.then_some(pcm.len() as u64)) {
            Ok(w) => w,
            Err(e) => {
                ctx.skip_foreign(format!("constructor failed: {e:?}"));
                return Ok(());
            }
        };
        if let Err(e) = w.write(&pcm) {
            std::mem::forget(w);
            ctx.skip_foreign(format!("encode failed before the crash point: {e:?}"));
            return Ok(());
        }
        // the process dies here: nothing is finalized
        std::mem::forget(w);
    }
    let full = cur.into_inner();
    probe("c14_more_than_65536_frames");
    let m = match refflac::parse_meta(&full, 0) {
        Ok(m) => m,
        Err(e) => {
            ctx.skip_foreign(format!("provisional metadata unparseable: {e:?}"));
            return Ok(());
        }
    };
    // frame boundaries from refflac, frame by frame (the provisional STREAMINFO is only used for the depth)
    let mut ends: Vec<usize> = Vec::with_capacity(frames);
    let mut pos = m.audio_start;
    while pos < full.len() {
        match refflac::parse_frame(&full, pos, Some(&m.si)) {
            Ok(f) => {
                pos = f.end;
                ends.push(pos);
            }
            Err(_) => break,
        }
    }
    if ends.len() != frames {
        ctx.skip_foreign(format!("refflac finds {} of {frames} frames on the medium — C02's matter", ends.len()));
        return Ok(());
    }
    let cuts: Vec<(usize, usize)> = vec![
        (full.len(), frames),
        (full.len() - 3, frames - 1),
        (ends[65_535], 65_536),
        (ends[65_536], 65_537),
        (ends[65_536] - 1, 65_536),
        (ends[65_534] + 2, 65_535),
    ];
    let rot = ch.draw("c14big.rot", 10) as usize;
    for (ci, (cut, complete)) in cuts.into_iter().enumerate() {
        let want = &pcm[..complete * 16];
        let rk = RKINDS[(ci + rot) % RKINDS.len()];
        let pat = Choices::generate(mix(ch.raw("c14big.pattern"), ci as u64));
        let prefix = full[..cut].to_vec();
        let res = catch_unwind(AssertUnwindSafe(|| decode_all(std::io::Cursor::new(prefix), rk, &pat, 16)));
        match res {
            Err(_) => {
                let (loc, msg) = take_panic().unwrap_or_default();
                let v = crate::classify_panic(&loc, &msg);
                return viol(v.class, format!("crash after {cut} bytes ({complete} complete frames): reader {rk:?} panicked: {msg}"));
            }
            Ok(r) => {
                ctx.eval_fp(mix(cut as u64, r.samples.len() as u64), true);
                if r.samples != want {
                    let class = if r.samples.len() < want.len() && want.starts_with(&r.samples) { "crash-prefix-undecodable" } else { "crash-prefix-wrong-samples" };
                    return viol(
                        class,
                        format!("crash after {cut} of {} bytes: {complete} completely written frames = {} samples, reader {rk:?} delivered {} (end: {:?})", full.len(), want.len(), r.samples.len(), r.err),
                    );
                }
            }
        }
    }
    Ok(())
}
