//! C14 — an interrupted encode leaves decodable complete frames: crash after every write event
//! and (for small outputs) at every byte of the append stream.

use crate::core::*;
use crate::disk::{Benign, Disk};
use crate::genr::*;
use crate::monitor::{probe, take_panic};
use crate::refflac::{self, StreamEnd};
use crate::rng::{Choices, mix};
use crate::world::*;
use std::panic::{AssertUnwindSafe, catch_unwind};

pub fn run(ctx: &mut Ctx) -> R {
    let ch = ctx.ch.clone();
    let mut cfg = draw_cfg(&ch, true);
    cfg.block = 16 + ch.draw("c14.block", 80) as u16;
    cfg.padding = *ch.pick("c14.pad", &[Some(8u32), None, Some(100), Some(40), Some(4096)]);
    let frames = draw_len(&ch, &cfg, 4);
    let pcm = draw_pcm(&ch, cfg.channels, cfg.bps, frames);
    let kind = draw_wkind(&ch);
    let chunks = draw_write_chunks(&ch, kind, &pcm);
    let wcap = *ch.pick("c14.wcap", &[0usize, 0, 16, 64, 300, 8192]);
    let declared = cfg.declare_total.then(|| total_for(kind, &pcm));
    let off = cfg.offset;
    ctx.describe(|| {
        format!(
            "interrupted encode {} frames={} writer={kind:?} chunks={} bufwriter={wcap}",
            cfg.describe(),
            pcm.frames,
            short_vec(&chunks, 8)
        )
    });
    if cfg.declare_total {
        probe("c14_declared");
    } else {
        probe("c14_undeclared");
    }
    // the encode that gets killed: writer leaked, nothing finalized, buffered bytes lost
    let file = ctx.disk.create(vec![0xA5; off]);
    ctx.disk.record_writes(true);
    let f = ctx.disk.open(file, Benign::none()).set_pos(off as u64);
    let sink = wrap_sink(f, wcap);
    let r = encode(sink, &cfg, &pcm, kind, &chunks, declared, EndMode::Forget, &[], &mut || {});
    ctx.disk.record_writes(false);
    if let Err(e) = r {
        ctx.skip_foreign(format!("encode failed before the crash point: {e:?}"));
        return Ok(());
    }
    let writes = ctx.disk.writes();
    let full = ctx.disk.data(file);
    // sanity: before finalize the encoder must only append
    let mut expect = off as u64;
    for (_, o, d) in &writes {
        if *o != expect {
            ctx.skip_foreign("encoder seeked before finalize; append-stream model does not apply");
            return Ok(());
        }
        expect += d.len() as u64;
    }
    // frame boundaries of the complete append stream, from refflac
    let (audio_start, ends): (usize, Vec<(usize, usize)>) = match refflac::parse_stream(&full, off) {
        Ok(s) => {
            if let StreamEnd::Invalid(at, why) = &s.end {
                ctx.skip_foreign(format!("refflac cannot parse the append stream at {at}: {why}"));
                return Ok(());
            }
            (s.meta.audio_start, s.frames.iter().map(|f| (f.end, f.block_size as usize)).collect())
        }
        Err(_) => (usize::MAX, Vec::new()),
    };
    // crash points
    let mut points: Vec<usize> = Vec::new();
    let mut acc = off;
    points.push(acc);
    for (_, _, d) in &writes {
        acc += d.len();
        points.push(acc);
    }
    let byte_limit = if ctx.tier == Tier::Thorough { 4096 } else { 1500 };
    if full.len() - off <= byte_limit {
        probe("c14_byte_granularity");
        points.extend(off..=full.len());
    }
    points.sort_unstable();
    points.dedup();
    let rot = ch.draw("c14.rot", 11) as usize;
    let pat_seed = ch.raw("c14.pattern");
    let c = cfg.channels as usize;
    for (pi, &cut) in points.iter().enumerate() {
        let prefix = full[..cut].to_vec();
        let complete: usize = ends.iter().take_while(|(e, _)| *e <= cut).map(|(_, n)| *n).sum();
        let want = &pcm.inter[..(complete * c).min(pcm.inter.len())];
        if cut < audio_start.min(full.len()) {
            probe("c14_crash_in_metadata");
        } else if ends.iter().any(|(e, _)| *e == cut) {
            probe("c14_crash_on_frame_boundary");
        } else {
            probe("c14_crash_inside_frame");
        }
        let which = (pi + rot) % 11;
        let d = Disk::new(&ctx.ch, ctx.trace);
        let pf = d.create(prefix);
        let src = d.open(pf, Benign::none()).set_pos(off as u64);
        let pat = Choices::generate(mix(pat_seed, pi as u64));
        let res = catch_unwind(AssertUnwindSafe(|| {
            if which == 10 {
                // verify_reader: must not report a successful verification of samples never written
                let r = flac_codec::decode::verify_reader(src);
                (None, format!("{r:?}"))
            } else {
                let r = decode_all(src, RKINDS[which], &pat, cfg.block as usize);
                (Some(r), String::new())
            }
        }));
        let label = if which == 10 { "verify_reader".to_string() } else { format!("{:?}", RKINDS[which]) };
        match res {
            Err(_) => {
                let (loc, msg) = take_panic().unwrap_or_default();
                let v = crate::classify_panic(&loc, &msg);
                ctx.adopt_trace(&d, &format!("crash at byte {cut}, reader {label}"));
                return viol(v.class, format!("crash at byte {cut} of {}: reader {label} panicked: {msg}", full.len()));
            }
            Ok((Some(r), _)) => {
                ctx.extra_events += d.seq();
                ctx.eval_fp(mix(d.fp(), r.samples.len() as u64), true);
                if r.samples != want {
                    ctx.adopt_trace(&d, &format!("crash at byte {cut}, reader {label}"));
                    let class = if r.samples.len() < want.len() && want.starts_with(&r.samples) {
                        "crash-prefix-undecodable"
                    } else {
                        "crash-prefix-wrong-samples"
                    };
                    return viol(
                        class,
                        format!(
                            "crash at byte {cut} of {} (metadata ends at {audio_start}): {} complete frames = {} samples, reader {label} delivered {} (end: {:?})",
                            full.len(),
                            ends.iter().take_while(|(e, _)| *e <= cut).count(),
                            want.len(),
                            r.samples.len(),
                            r.err
                        ),
                    );
                }
            }
            Ok((None, _verdict)) => {
                ctx.eval_fp(mix(d.fp(), 77), true);
            }
        }
    }
    Ok(())
}
