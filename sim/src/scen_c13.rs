//! C13 — success only when the output reached the stream: exhaustive placement of one hard
//! fault at every I/O event of a transaction, for every fault kind.

use crate::core::*;
use crate::disk::{Benign, Disk, Hard, HardKind, OpMask};
use crate::genmeta;
use crate::genr::*;
use crate::monitor::{probe, take_panic};
use crate::rng::{Choices, mix};
use crate::world::*;
use flac_codec::metadata::{Block, BlockList, VorbisComment};
use std::io::{BufWriter, Cursor, Write};
use std::panic::{AssertUnwindSafe, catch_unwind};

pub struct Outcome {
    pub ok: bool,
    pub out: Vec<Vec<u8>>,
    pub note: String,
}

#[derive(Clone, Copy, Debug, PartialEq, Eq)]
pub enum SinkMode {
    Raw,
    CallerBuf(usize),
    /// the sink exactly as `create(path)` builds it: an owned BufWriter moved into the writer
    OwnedBuf(usize),
}

pub fn sweep(ctx: &mut Ctx, tag: &str, title: &str, ops: OpMask, tx: &dyn Fn(&Disk) -> Outcome) -> R {
    let g = Disk::new(&ctx.ch, false);
    g.set_hard(Some(Hard {
        kind: HardKind::ErrorOnce,
        at: u64::MAX,
        ops,
        capacity: 0,
    }));
    g.record_writes(true);
    let gold = match catch_unwind(AssertUnwindSafe(|| tx(&g))) {
        Ok(o) => o,
        Err(_) => {
            let (loc, msg) = take_panic().unwrap_or_default();
            let v = crate::classify_panic(&loc, &msg);
            ctx.skip_foreign(format!("fault-free twin of {title} panicked ({}) — not an I/O-fault matter", v.class));
            return Ok(());
        }
    };
    if !gold.ok && gold.note.contains("injected: cannot create rebuilt file") {
        // the rebuilt() closure itself failed and update_file said Err: exactly what is demanded
        probe("c13_rebuilt_closure_failure_propagated");
        ctx.eval_fp(g.fp(), true);
        return Ok(());
    }
    if !gold.ok {
        ctx.skip_foreign(format!("fault-free twin of {title} failed: {}", gold.note));
        return Ok(());
    }
    let n = g.hard_seq();
    let writes = g.writes();
    // coordinates
    let mut coords: Vec<(HardKind, u64, u64)> = Vec::new();
    let idx: Vec<u64> = if n <= 1500 {
        (0..n).collect()
    } else {
        probe("c13_sweep_strided");
        let stride = (n / 600).max(2);
        (0..n).filter(|i| *i < 200 || *i + 200 >= n || i % stride == 0).collect()
    };
    for &i in &idx {
        coords.push((HardKind::ErrorOnce, i, 0));
        coords.push((HardKind::ErrorFrom, i, 0));
        if ops.has(OpMask::WRITE) {
            coords.push((HardKind::WriteZero, i, 0));
        }
        // transient faults: a retrying caller (write_all, read_exact) hides them, so the
        // transaction normally still succeeds and must then have produced the golden result
        coords.push((HardKind::ShortOnce, i, 0));
        coords.push((HardKind::EintrOnce, i, 0));
    }
    if ops.has(OpMask::WRITE) {
        let mut caps: Vec<u64> = vec![0];
        for (_, off, data) in &writes {
            caps.push(*off);
            caps.push(*off + 1);
            caps.push(*off + data.len() as u64 - 1);
        }
        caps.sort_unstable();
        caps.dedup();
        if caps.len() > 1500 {
            let stride = caps.len() / 700 + 1;
            caps = caps.into_iter().enumerate().filter(|(i, _)| i % stride == 0).map(|(_, c)| c).collect();
        }
        for c in caps {
            coords.push((HardKind::DiskFull, 0, c));
        }
    }
    // thorough tier: drawn multi-fault sequences — one hard fault on top of a storm of benign ones
    let mut multi: Vec<(HardKind, u64, u64, Benign)> = Vec::new();
    if ctx.tier == Tier::Thorough && n > 0 {
        for _ in 0..120 {
            let kind = *ctx.ch.pick("c13.multi.kind", &[HardKind::ErrorOnce, HardKind::ErrorFrom, HardKind::WriteZero, HardKind::ShortOnce, HardKind::EintrOnce]);
            // benign faults add events, so the index space is stretched
            let at = ctx.ch.draw("c13.multi.at", n * 3 + 1);
            let mut b = Benign::draw(&ctx.ch);
            if !b.any() {
                b.short_write = 200;
                b.short_read = 200;
                b.eintr_read = 100;
                b.eintr_write = 100;
            }
            multi.push((kind, at, 0, b));
        }
        probe("c13_multi_fault_sequences");
    }
    ctx.note(|| format!("{title}: fault-free twin has {n} events; sweeping {} fault placements", coords.len()));
    let all: Vec<(HardKind, u64, u64, Option<Benign>)> = coords
        .into_iter()
        .map(|(k, a, c)| (k, a, c, None))
        .chain(multi.into_iter().map(|(k, a, c, b)| (k, a, c, Some(b))))
        .collect();
    for (kind, at, cap, ben) in all {
        let d = Disk::new(&ctx.ch, ctx.trace);
        d.force_benign(ben);
        d.set_hard(Some(Hard {
            kind,
            at,
            ops,
            capacity: cap,
        }));
        let r = catch_unwind(AssertUnwindSafe(|| tx(&d)));
        let coord = if kind == HardKind::DiskFull {
            format!("disk_full(capacity={cap})")
        } else if let Some(b) = ben {
            format!("{kind:?} at event {at} amid benign faults {b:?}")
        } else {
            format!("{kind:?} at event {at} of {n}")
        };
        match r {
            Err(_) => {
                let (loc, msg) = take_panic().unwrap_or_default();
                let v = crate::classify_panic(&loc, &msg);
                ctx.adopt_trace(&d, &format!("{title}: {coord}"));
                return viol(v.class, format!("{title}: {coord}: {msg}"));
            }
            Ok(mut o) => {
                // finalize() called after a failed write and reporting Ok: its own writes (header, seek
                // table, flush) must have failed too when the sink fails for good from that point on —
                // then Ok is a success report without the output. After a transient failure, or on a
                // full disk whose first bytes can still be overwritten, finalize's own work can
                // legitimately succeed (the lost frame was reported by the write call): not judged.
                if crate::world::FINALIZE_OK_AFTER_ERROR.with(|f| f.replace(false)) {
                    if matches!(kind, HardKind::ErrorFrom | HardKind::WriteZero) && ben.is_none() {
                        probe("c13_finalize_ok_after_permanent_failure");
                    } else {
                        o.ok = false;
                    }
                }
                let fired = d.hard_fired() > 0;
                ctx.extra_events += d.seq();
                ctx.eval_fp(mix(d.fp(), o.ok as u64), fired);
                if fired {
                    probe(match kind {
                        HardKind::ErrorOnce => "c13_error_once_fired",
                        HardKind::ErrorFrom => "c13_error_from_fired",
                        HardKind::WriteZero => "c13_write_zero_fired",
                        HardKind::DiskFull => "c13_disk_full_fired",
                        HardKind::ShortOnce => "c13_short_transfer_placed",
                        HardKind::EintrOnce => "c13_eintr_placed",
                    });
                }
                if o.ok && fired {
                    probe("c13_ok_returned_after_fault_fired");
                }
                if o.ok && o.out != gold.out {
                    ctx.adopt_trace(&d, &format!("{title}: {coord}"));
                    let which = o.out.iter().zip(&gold.out).position(|(a, b)| a != b).unwrap_or(0);
                    let class = if ops.has(OpMask::WRITE) { "ok-but-incomplete" } else { "read-error-swallowed" };
                    return viol(
                        format!("{class}:{tag}"),
                        format!(
                            "{title}: {coord}: every call returned Ok but output #{which} differs from the fault-free result ({} vs {} bytes) {}",
                            o.out.get(which).map(|v| v.len()).unwrap_or(0),
                            gold.out.get(which).map(|v| v.len()).unwrap_or(0),
                            o.note
                        ),
                    );
                }
            }
        }
    }
    Ok(())
}

fn small_cfg(ch: &Choices) -> Cfg {
    let mut cfg = draw_cfg(ch, true);
    cfg.block = 16 + ch.draw("c13.block", 48) as u16;
    cfg.padding = *ch.pick("c13.pad", &[None, Some(10u32), Some(64), Some(300)]);
    cfg.offset = *ch.pick("c13.off", &[0usize, 0, 5]);
    if cfg.bps == 1 && cfg.channels > 0 {
        // nothing special; 1-bit streams are legal
    }
    cfg
}

/// a small finished FLAC file built on a perfect in-memory sink
pub fn make_file(ch: &Choices, cfg: &Cfg, pcm: &Pcm, extra: Vec<Block>) -> Option<Vec<u8>> {
    let mut cur = Cursor::new(Vec::new());
    let mut opts = cfg.options();
    for b in extra {
        match b {
            Block::VorbisComment(c) => {
                opts.add_block(c);
            }
            Block::Application(a) => {
                opts.add_block(a);
            }
            Block::Picture(p) => {
                opts.add_block(p);
            }
            Block::Cuesheet(c) => {
                opts.add_block(c);
            }
            _ => {}
        }
    }
    let _ = ch;
    let mut w = flac_codec::encode::FlacSampleWriter::new(&mut cur, opts, cfg.rate, cfg.bps, cfg.channels, None).ok()?;
    w.write(&pcm.inter).ok()?;
    w.finalize().ok()?;
    Some(cur.into_inner())
}

pub fn run(ctx: &mut Ctx) -> R {
    let ch = ctx.ch.clone();
    let tx = ch.draw("c13.tx", 12);
    match tx {
        0..=3 => tx_encode(ctx, &ch),
        4 => tx_write_blocks(ctx, &ch),
        5 | 6 => tx_update(ctx, &ch),
        7 => tx_stream_writer(ctx, &ch),
        _ => tx_read_side(ctx, &ch),
    }
}

fn tx_encode(ctx: &mut Ctx, ch: &Choices) -> R {
    let cfg = small_cfg(ch);
    let frames = draw_len(ch, &cfg, 2);
    let pcm = draw_pcm(ch, cfg.channels, cfg.bps, frames);
    let kind = draw_wkind(ch);
    let chunks = draw_write_chunks(ch, kind, &pcm);
    let mode = match ch.draw("c13.sink", 5) {
        0 | 1 => SinkMode::OwnedBuf(8192),
        2 => SinkMode::Raw,
        3 => SinkMode::CallerBuf(*ch.pick("c13.cap", &[8192usize, 16, 100, 1])),
        _ => SinkMode::OwnedBuf(*ch.pick("c13.cap2", &[64usize, 1, 300, 8192])),
    };
    let declared = cfg.declare_total.then(|| total_for(kind, &pcm));
    // one run in three: the caller goes on to finalize() after a write call failed
    let fin_after_err = ch.draw("c13.finalize_after_error", 3) == 2;
    let title = format!("encode+finalize writer={kind:?} sink={mode:?}{}", if fin_after_err { " (finalize() called even after a failed write)" } else { "" });
    ctx.describe(|| format!("{title} {} frames={} chunks={}", cfg.describe(), pcm.frames, short_vec(&chunks, 8)));
    ctx.api(13, mode_code(mode));
    let off = cfg.offset;
    sweep(ctx, &format!("encode-{}", match mode { SinkMode::Raw => "raw", SinkMode::CallerBuf(_) => "callerbuf", SinkMode::OwnedBuf(_) => "ownedbuf" }), &title, OpMask::ALL_W, &|d: &Disk| {
        let file = d.create(vec![0xA5; off]);
        let f = d.open(file, Benign::none()).set_pos(off as u64);
        let mut nothing = || {};
        crate::world::FINALIZE_AFTER_ERROR.with(|x| x.set(fin_after_err));
        let (ok, note) = match mode {
            SinkMode::Raw => {
                let r = encode(f, &cfg, &pcm, kind, &chunks, declared, EndMode::Finalize, &[], &mut nothing);
                (r.is_ok(), format!("{r:?}"))
            }
            SinkMode::CallerBuf(cap) => {
                let mut bw = BufWriter::with_capacity(cap, f);
                let r = encode(&mut bw, &cfg, &pcm, kind, &chunks, declared, EndMode::Finalize, &[], &mut nothing);
                let fl = bw.flush();
                (r.is_ok() && fl.is_ok(), format!("{r:?} flush={fl:?}"))
            }
            SinkMode::OwnedBuf(cap) => {
                let bw = BufWriter::with_capacity(cap, f);
                let r = encode(bw, &cfg, &pcm, kind, &chunks, declared, EndMode::Finalize, &[], &mut nothing);
                (r.is_ok(), format!("{r:?}"))
            }
        };
        crate::world::FINALIZE_AFTER_ERROR.with(|x| x.set(false));
        Outcome {
            ok,
            out: vec![d.data(file)],
            note,
        }
    })
}

fn mode_code(m: SinkMode) -> u64 {
    match m {
        SinkMode::Raw => 0,
        SinkMode::CallerBuf(_) => 1,
        SinkMode::OwnedBuf(_) => 2,
    }
}

fn streaminfo_block(ch: &Choices) -> Block {
    use flac_codec::metadata::Streaminfo;
    Streaminfo {
        minimum_block_size: 16,
        maximum_block_size: 4096,
        minimum_frame_size: None,
        maximum_frame_size: std::num::NonZero::new(100),
        sample_rate: *ch.pick("si.rate", &[44100u32, 0, 1048575]),
        channels: std::num::NonZero::new(1 + ch.draw("si.ch", 8) as u8).unwrap(),
        bits_per_sample: (*ch.pick("si.bps", &[16u32, 1, 32, 8, 24])).try_into().unwrap(),
        total_samples: std::num::NonZero::new(*ch.pick("si.total", &[0u64, 1, 1000, (1 << 36) - 1])),
        md5: None,
    }
    .into()
}

fn tx_write_blocks(ctx: &mut Ctx, ch: &Choices) -> R {
    let mut blocks = vec![streaminfo_block(ch)];
    blocks.extend(genmeta::draw_blocks(ch, 5, false));
    let mode = if ch.draw("c13.wb.sink", 2) == 0 {
        SinkMode::Raw
    } else {
        SinkMode::CallerBuf(*ch.pick("c13.wb.cap", &[8192usize, 7, 64]))
    };
    let title = format!("write_blocks sink={mode:?} blocks={}", blocks.len());
    ctx.describe(|| title.clone());
    ctx.api(14, mode_code(mode));
    sweep(ctx, "write_blocks", &title, OpMask::ALL_W, &|d: &Disk| {
        let file = d.create(Vec::new());
        let f = d.open(file, Benign::none());
        let (ok, note) = match mode {
            SinkMode::Raw => {
                let r = flac_codec::metadata::write_blocks(f, blocks.iter());
                (r.is_ok(), format!("{r:?}"))
            }
            _ => {
                let cap = if let SinkMode::CallerBuf(c) = mode { c } else { 64 };
                let mut bw = BufWriter::with_capacity(cap, f);
                let r = flac_codec::metadata::write_blocks(&mut bw, blocks.iter());
                let fl = bw.flush();
                (r.is_ok() && fl.is_ok(), format!("{r:?} flush={fl:?}"))
            }
        };
        Outcome {
            ok,
            out: vec![d.data(file)],
            note,
        }
    })
}

fn tx_update(ctx: &mut Ctx, ch: &Choices) -> R {
    let mut cfg = small_cfg(ch);
    cfg.offset = 0;
    cfg.padding = *ch.pick("c13.upd.pad", &[Some(200u32), None, Some(20), Some(9000), Some(2000)]);
    // the audio is sometimes larger than update_file's internal 8 KiB read buffer, so that the
    // rebuild path has to go back to the source while copying the frames
    let frames = match ch.draw("c13.upd.audio", 4) {
        0 | 1 => 16 + ch.draw("c13.upd.n", 40) as usize,
        2 => 6000 + ch.draw("c13.upd.n2", 2000) as usize,
        _ => 14000,
    };
    if frames > 1000 {
        cfg.channels = 1;
        cfg.bps = 16;
        cfg.block = 1024;
        probe("c13_update_audio_larger_than_read_buffer");
    }
    let mut pcm = draw_pcm(ch, cfg.channels, cfg.bps, frames);
    if frames > 1000 {
        // incompressible, so that the file really exceeds the buffer
        let mut r = crate::rng::Xoshiro::new(ch.raw("c13.upd.noise"));
        for x in pcm.inter.iter_mut() {
            *x = (r.next() % 65536) as i32 - 32768;
        }
    }
    let extra = genmeta::draw_blocks(ch, 3, false);
    let Some(orig) = make_file(ch, &cfg, &pcm, extra) else {
        ctx.skip_foreign("fixture file could not be encoded");
        return Ok(());
    };
    // the edit: a comment whose size is drawn to land in place, or to force a rebuild, or to make
    // the metadata larger than update_file's internal 8 KiB buffer
    let size = *ch.pick("c13.upd.size", &[10usize, 0, 100, 180, 1000, 8500, 12000]);
    let fail_rebuilt = ch.draw("c13.upd.failrebuilt", 6) == 5;
    let title = format!(
        "update_file original={} bytes padding={:?} new-comment={} bytes fail_rebuilt={fail_rebuilt}",
        orig.len(),
        cfg.padding,
        size
    );
    ctx.describe(|| title.clone());
    ctx.api(15, size as u64 & 0xff);
    if size > 8192 {
        probe("c13_metadata_larger_than_8k");
    }
    // the error kinds of injected read/write failures vary in this sweep (UnexpectedEof, BrokenPipe,
    // InvalidData besides Other): whatever its kind, an error of the source or the sink must come back
    let salt = ch.draw("c13.upd.kindsalt", 4);
    crate::disk::ERROR_KIND_SALT.with(|c| c.set(Some(salt)));
    let r = sweep_update(ctx, &title, &orig, fail_rebuilt, size);
    crate::disk::ERROR_KIND_SALT.with(|c| c.set(None));
    r
}

fn sweep_update(ctx: &mut Ctx, title: &str, orig: &[u8], fail_rebuilt: bool, size: usize) -> R {
    let orig = orig.to_vec();
    sweep(ctx, "update_file", title, OpMask::ALL, &|d: &Disk| {
        let f0 = d.create(orig.clone());
        let f1 = d.create(Vec::new());
        let orig_h = d.open(f0, Benign::none());
        let d2 = d.clone();
        let r = flac_codec::metadata::update_file::<_, _, flac_codec::Error>(
            orig_h,
            || {
                if fail_rebuilt {
                    Err(std::io::Error::other("injected: cannot create rebuilt file"))
                } else {
                    Ok(d2.open(f1, Benign::none()))
                }
            },
            |bl: &mut BlockList| {
                bl.update::<VorbisComment>(|vc| vc.set("COMMENT", "x".repeat(size)));
                Ok(())
            },
        );
        Outcome {
            ok: r.is_ok(),
            out: vec![d.data(f0), d.data(f1), vec![matches!(r, Ok(true)) as u8]],
            note: format!("{r:?}"),
        }
    })
}

fn tx_stream_writer(ctx: &mut Ctx, ch: &Choices) -> R {
    let n = 1 + ch.draw("c13.sw.frames", 3) as usize;
    let mut frames = Vec::new();
    for _ in 0..n {
        let chn = 1 + ch.draw("c13.sw.ch", 3) as u8;
        let bps = *ch.pick("c13.sw.bps", &[16u32, 8, 24]);
        let len = 1 + ch.draw("c13.sw.len", 40) as usize;
        frames.push((chn, bps, draw_pcm(ch, chn, bps, len)));
    }
    let mode = if ch.draw("c13.sw.sink", 2) == 0 {
        SinkMode::Raw
    } else {
        SinkMode::CallerBuf(*ch.pick("c13.sw.cap", &[8192usize, 7, 64]))
    };
    let title = format!("FlacStreamWriter::write x{n} sink={mode:?}");
    ctx.describe(|| title.clone());
    ctx.api(16, mode_code(mode));
    sweep(ctx, "stream_writer", &title, OpMask::ALL_W, &|d: &Disk| {
        let file = d.create(Vec::new());
        let f = d.open(file, Benign::none());
        let opts = flac_codec::encode::Options::default();
        let mut ok = true;
        let mut note = String::new();
        match mode {
            SinkMode::Raw => {
                let mut w = flac_codec::encode::FlacStreamWriter::new(f, opts);
                for (c, b, p) in &frames {
                    if let Err(e) = w.write(44100, *c, *b, &p.inter) {
                        ok = false;
                        note = format!("{e:?}");
                        break;
                    }
                }
            }
            _ => {
                let cap = if let SinkMode::CallerBuf(c) = mode { c } else { 64 };
                let mut bw = BufWriter::with_capacity(cap, f);
                {
                    let mut w = flac_codec::encode::FlacStreamWriter::new(&mut bw, opts);
                    for (c, b, p) in &frames {
                        if let Err(e) = w.write(44100, *c, *b, &p.inter) {
                            ok = false;
                            note = format!("{e:?}");
                            break;
                        }
                    }
                }
                if bw.flush().is_err() {
                    ok = false;
                }
            }
        }
        Outcome {
            ok,
            out: vec![d.data(file)],
            note,
        }
    })
}

fn tx_read_side(ctx: &mut Ctx, ch: &Choices) -> R {
    let mut cfg = small_cfg(ch);
    cfg.offset = 0;
    let frames = draw_len(ch, &cfg, 2);
    let pcm = draw_pcm(ch, cfg.channels, cfg.bps, frames);
    let extra = genmeta::draw_blocks(ch, 2, false);
    // both kinds of file: total known, and total unknown (an unfinished-looking header)
    let Some(mut bytes) = make_file(ch, &cfg, &pcm, extra) else {
        ctx.skip_foreign("fixture file could not be encoded");
        return Ok(());
    };
    let unknown_total = ch.draw("c13.rd.unknown", 3) == 2;
    if unknown_total {
        // clear the 36-bit total-samples field of STREAMINFO (bytes 21..26 of the stream, low nibble of 21)
        bytes[21] &= 0xF0;
        for b in &mut bytes[22..26] {
            *b = 0;
        }
        probe("c13_read_unknown_total");
    }
    let what = ch.draw("c13.rd.what", 5);
    let rk = draw_rkind(ch);
    let cap = draw_bufcap(ch);
    let pat_seed = ch.raw("c13.rd.pattern");
    let block = cfg.block as usize;
    let title = format!(
        "read-side {} source={} bytes bufcap={cap} unknown_total={unknown_total}",
        match what {
            0 | 1 => format!("decode via {rk:?}"),
            2 => "verify_reader".into(),
            3 => "FrameIterator".into(),
            _ => "generate_seektable".into(),
        },
        bytes.len()
    );
    ctx.describe(|| title.clone());
    ctx.api(17, what);
    sweep(ctx, "read", &title, OpMask::ALL_R, &|d: &Disk| {
        let file = d.create(bytes.clone());
        let f = d.open(file, Benign::none());
        let src = wrap_src(f, cap);
        match what {
            0 | 1 => {
                let pat = Choices::generate(pat_seed);
                let r = decode_all(src, rk, &pat, block);
                Outcome {
                    ok: r.err.is_none(),
                    out: vec![samples_to_bytes(&r.samples, 4, false)],
                    note: format!("{:?}", r.err),
                }
            }
            2 => {
                let r = flac_codec::decode::verify_reader(src);
                Outcome {
                    ok: r.is_ok(),
                    out: vec![format!("{r:?}").into_bytes()],
                    note: format!("{r:?}"),
                }
            }
            3 => match flac_codec::stream::FrameIterator::new(src) {
                Err(e) => Outcome {
                    ok: false,
                    out: vec![],
                    note: format!("{e:?}"),
                },
                Ok(it) => {
                    let mut ok = true;
                    let mut offs = Vec::new();
                    let mut note = String::new();
                    for x in it {
                        match x {
                            Ok((_, o)) => offs.extend_from_slice(&o.to_le_bytes()),
                            Err(e) => {
                                ok = false;
                                note = format!("{e:?}");
                                break;
                            }
                        }
                    }
                    Outcome {
                        ok,
                        out: vec![offs],
                        note,
                    }
                }
            },
            _ => {
                let r = flac_codec::encode::generate_seektable(
                    src,
                    flac_codec::encode::SeekTableInterval::Frames(1.try_into().unwrap()),
                );
                Outcome {
                    ok: r.is_ok(),
                    out: vec![format!("{r:?}").into_bytes()],
                    note: String::new(),
                }
            }
        }
    })
}
