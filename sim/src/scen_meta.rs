//! The metadata world: C10 (updates never disturb the audio) and C11 (blocks survive write/read).

use crate::core::*;
use crate::disk::{Benign, Disk};
use crate::genmeta;
use crate::genr::*;
use crate::monitor::{probe, take_panic};
use crate::refflac;
use crate::rng::{Choices, mix};
use crate::world::*;
use flac_codec::metadata::{
    Application, Block, BlockList, MetadataBlock, Padding, Picture, PictureType, VorbisComment, read_blocks, update_file, write_blocks,
};
use std::cell::RefCell;
use std::io::Cursor;
use std::panic::{AssertUnwindSafe, catch_unwind};

fn blocks_of(bl: &BlockList) -> Vec<Block> {
    bl.clone().into_iter().collect()
}

fn serialise(blocks: &[Block]) -> Result<Vec<u8>, String> {
    let mut v = Vec::new();
    write_blocks(&mut v, blocks.iter()).map_err(|e| format!("{e:?}"))?;
    Ok(v)
}

fn body_size(b: &Block) -> Option<u32> {
    match b {
        Block::Streaminfo(x) => x.bytes(),
        Block::Padding(x) => x.bytes(),
        Block::Application(x) => x.bytes(),
        Block::SeekTable(x) => x.bytes(),
        Block::VorbisComment(x) => x.bytes(),
        Block::Cuesheet(x) => x.bytes(),
        Block::Picture(x) => x.bytes(),
    }
    .map(u32::from)
}

fn total_size(b: &Block) -> Option<u32> {
    match b {
        Block::Streaminfo(x) => x.total_size(),
        Block::Padding(x) => x.total_size(),
        Block::Application(x) => x.total_size(),
        Block::SeekTable(x) => x.total_size(),
        Block::VorbisComment(x) => x.total_size(),
        Block::Cuesheet(x) => x.total_size(),
        Block::Picture(x) => x.total_size(),
    }
    .map(u32::from)
}

/// compare block lists, ignoring the size of the first padding block
fn same_apart_from_first_padding(a: &[Block], b: &[Block]) -> bool {
    if a.len() != b.len() {
        return false;
    }
    let mut first_pad = true;
    for (x, y) in a.iter().zip(b) {
        match (x, y) {
            (Block::Padding(_), Block::Padding(_)) if first_pad => {
                first_pad = false;
            }
            _ => {
                if x != y {
                    return false;
                }
            }
        }
    }
    true
}

#[derive(Debug, Clone)]
enum Edit {
    /// set the COMMENT field to a value sized so that the metadata grows by `first padding + d`
    CommentFit(i64),
    CommentSet(usize),
    CommentRemove,
    AddPicture,
    AddIcon,
    DropPictures,
    AddApplication(usize),
    DropApplications,
    PaddingResize(u32),
    PaddingRemove,
    PaddingAdd(u32),
    Oversize,
    /// an APPLICATION block of exactly (or within a few bytes of) the largest legal size: one edit
    /// that moves the metadata size by more than the 24-bit size field can express
    AddMaxApplication(u32),
    CallbackErr,
    Nothing,
}

fn draw_edit(ch: &Choices) -> Edit {
    match ch.draw("edit.kind", 16) {
        0 | 1 | 2 => Edit::CommentFit(ch.draw("edit.fit.d", 17) as i64 - 8),
        3 => Edit::CommentSet(*ch.pick("edit.set.n", &[0usize, 1, 10, 100, 1000, 5000, 9000, 70000])),
        4 => Edit::CommentRemove,
        5 => Edit::AddPicture,
        6 => Edit::AddIcon,
        7 => Edit::DropPictures,
        8 => Edit::AddApplication(*ch.pick("edit.app.n", &[0usize, 4, 100, 8200])),
        9 => Edit::DropApplications,
        10 => Edit::PaddingResize(*ch.pick("edit.pad.n", &[0u32, 1, 4, 100, 4096, 20000])),
        11 => Edit::PaddingRemove,
        12 => Edit::PaddingAdd(*ch.pick("edit.padadd.n", &[0u32, 8, 300])),
        13 => Edit::Oversize,
        14 => Edit::CallbackErr,
        _ => {
            if ch.draw("edit.max", 24) == 0 {
                Edit::AddMaxApplication(ch.draw("edit.max.below", 4) as u32)
            } else {
                Edit::Nothing
            }
        }
    }
}

fn first_padding(bl: &BlockList) -> Option<u32> {
    bl.get::<Padding>().map(|p| u32::from(p.size))
}

/// applies the edit to `bl`; Err(()) = the callback itself fails
fn apply_edit(bl: &mut BlockList, e: &Edit, ch: &Choices) -> Result<(), ()> {
    match e {
        Edit::CommentFit(d) => {
            let before = serialise(&blocks_of(bl)).map(|v| v.len() as i64).unwrap_or(0);
            let pad = first_padding(bl).unwrap_or(0) as i64;
            bl.update::<VorbisComment>(|vc| vc.set("COMMENT", "fit"));
            let after = serialise(&blocks_of(bl)).map(|v| v.len() as i64).unwrap_or(0);
            // growing the value by n bytes grows the metadata by n bytes
            let want = pad + d;
            let n = want - (after - before);
            if n >= 0 {
                bl.update::<VorbisComment>(|vc| vc.set("COMMENT", format!("fit{}", "x".repeat(n as usize))));
                match *d {
                    0 => probe("c10_delta_exact_fit"),
                    1 => probe("c10_delta_one_over"),
                    -1 => probe("c10_delta_one_short"),
                    d if d < 0 => probe("c10_delta_below_fit"),
                    _ => probe("c10_delta_above_fit"),
                }
            }
        }
        Edit::CommentSet(n) => bl.update::<VorbisComment>(|vc| vc.set("COMMENT", "y".repeat(*n))),
        Edit::CommentRemove => bl.remove::<VorbisComment>(),
        Edit::AddPicture => {
            bl.insert(genmeta::draw_picture(ch, false));
        }
        Edit::AddIcon => {
            let mut p = genmeta::draw_picture(ch, false);
            p.picture_type = PictureType::Png32x32;
            bl.insert(p);
        }
        Edit::DropPictures => bl.remove::<Picture>(),
        Edit::AddApplication(n) => {
            bl.insert(Application {
                id: 0x74657374,
                data: vec![7; *n],
            });
        }
        Edit::DropApplications => bl.remove::<Application>(),
        Edit::PaddingResize(n) => {
            if let Some(p) = bl.get_mut::<Padding>() {
                p.size = (*n).try_into().unwrap();
            } else {
                bl.insert(Padding {
                    size: (*n).try_into().unwrap(),
                });
            }
        }
        Edit::PaddingRemove => bl.remove::<Padding>(),
        Edit::PaddingAdd(n) => {
            bl.insert(Padding {
                size: (*n).try_into().unwrap(),
            });
        }
        Edit::Oversize => {
            // a block larger than the 24-bit size field can hold
            bl.insert(Application {
                id: 1,
                data: vec![0; (1 << 24) - 2],
            });
            probe("c10_24bit_limit_crossed");
        }
        Edit::AddMaxApplication(below) => {
            // payload = 4-byte id + data = 2^24-1-below
            bl.insert(Application {
                id: 0x6d617821,
                data: vec![3; (1 << 24) - 1 - 4 - *below as usize],
            });
            probe("c10_single_edit_delta_above_24bit");
        }
        Edit::CallbackErr => return Err(()),
        Edit::Nothing => {}
    }
    Ok(())
}

#[derive(Debug)]
enum CbErr {
    Callback,
    Flac(String),
}
impl From<flac_codec::Error> for CbErr {
    fn from(e: flac_codec::Error) -> Self {
        CbErr::Flac(format!("{e:?}"))
    }
}

pub fn run_c10(ctx: &mut Ctx) -> R {
    run_c10_with(ctx, false)
}

/// the same histories on a file whose first padding block is within a few bytes of the 24-bit block
/// size limit, with edits that shrink the other blocks: the freed bytes do not fit into the padding
pub fn run_c10_big(ctx: &mut Ctx) -> R {
    run_c10_with(ctx, true)
}

fn run_c10_with(ctx: &mut Ctx, big: bool) -> R {
    let ch = ctx.ch.clone();
    let mut cfg = draw_cfg(&ch, true);
    cfg.block = 16 + ch.draw("c10.block", 32) as u16;
    cfg.offset = 0;
    cfg.padding = *ch.pick("c10.pad", &[Some(100u32), None, Some(8), Some(4096), Some(30), Some(9000)]);
    if big {
        cfg.padding = Some((1u32 << 24) - 1 - ch.draw("c10.big.below", 13) as u32);
        cfg.tags = 0;
        cfg.seek = crate::genr::SeekPolicy::Off;
        probe("c10_padding_near_24bit_limit");
    }
    let frames = 10 + ch.draw("c10.n", 60) as usize;
    let pcm = draw_pcm(&ch, cfg.channels, cfg.bps, frames);
    let mut extra = if big {
        // a comment and an application block in front of the padding, both of which can shrink
        let mut vc = VorbisComment { vendor_string: "v".into(), fields: Vec::new() };
        vc.fields.push(format!("COMMENT={}", "c".repeat(ch.draw("c10.big.comment", 40) as usize)));
        vec![Block::from(vc), Block::from(Application { id: 0x74657374, data: vec![1; ch.draw("c10.big.app", 30) as usize] })]
    } else {
        genmeta::draw_blocks(&ch, 3, false)
    };
    // several padding blocks
    for _ in 0..ch.draw("c10.morepad", 3) {
        extra.push(
            Padding {
                size: (*ch.pick("c10.morepad.n", &[0u32, 5, 50])).try_into().unwrap(),
            }
            .into(),
        );
        probe("c10_several_padding_blocks");
    }
    let mut opts = cfg.options();
    for b in extra {
        match b {
            Block::VorbisComment(c) => {
                opts.add_block(c);
            }
            Block::Application(a) => {
                opts.add_block(a);
            }
            Block::Picture(p) => {
                opts.add_block(p);
            }
            Block::Cuesheet(c) => {
                opts.add_block(c);
            }
            Block::Padding(p) => {
                opts.add_block(p);
            }
            _ => {}
        }
    }
    let mut cur = Cursor::new(Vec::new());
    {
        let Ok(mut w) = flac_codec::encode::FlacSampleWriter::new(&mut cur, opts, cfg.rate, cfg.bps, cfg.channels, None) else {
            ctx.skip_foreign("fixture could not be encoded");
            return Ok(());
        };
        if w.write(&pcm.inter).is_err() || w.finalize().is_err() {
            ctx.skip_foreign("fixture could not be encoded");
            return Ok(());
        }
    }
    let start_bytes = cur.into_inner();
    let Ok(meta0) = refflac::parse_meta(&start_bytes, 0) else {
        ctx.skip_foreign("fixture metadata unparseable by refflac");
        return Ok(());
    };
    let frame_bytes = start_bytes[meta0.audio_start..].to_vec();
    ctx.describe(|| format!("{} frames={} file={}B metadata={}B blocks={:?}", cfg.describe(), frames, start_bytes.len(), meta0.audio_start, meta0.blocks.iter().map(|b| (b.kind, b.len)).collect::<Vec<_>>()));
    let ben = if big { Benign::none() } else { Benign::draw(&ch) };
    // the stream may be embedded: foreign bytes in front of the `fLaC` tag, handle positioned on the tag
    let off = if big { 0 } else { *ch.pick("c10.prefix", &[0usize, 0, 0, 7, 100]) };
    if off > 0 {
        probe("c10_stream_not_at_offset_0");
    }
    let mut media0 = vec![0xA5u8; off];
    media0.extend_from_slice(&start_bytes);
    let mut cur_file = ctx.disk.create(media0);
    // the file a step works on keeps `cur_off` foreign bytes in front (a rebuilt file has none)
    let mut cur_off = off;
    let steps = 1 + ch.draw("c10.steps", if big { 3 } else { 12 });
    for step in 0..steps {
        let edit = if big {
            match ch.draw("edit.big.kind", 8) {
                0 | 1 => Edit::CommentSet(ch.draw("edit.big.n", 24) as usize),
                2 => Edit::CommentRemove,
                3 => Edit::DropApplications,
                4 => Edit::AddApplication(ch.draw("edit.big.app", 16) as usize),
                5 => Edit::CommentFit(ch.draw("edit.fit.d", 17) as i64 - 8),
                6 => Edit::PaddingResize((1u32 << 24) - 1 - ch.draw("edit.big.pad", 6) as u32),
                _ => {
                    if ch.draw("edit.big.max", 2) == 0 {
                        Edit::AddMaxApplication(ch.draw("edit.max.below", 4) as u32)
                    } else {
                        Edit::Nothing
                    }
                }
            }
        } else {
            draw_edit(&ch)
        };
        let before = ctx.disk.data(cur_file);
        // megabytes through one-byte transfers would only spend the event budget
        let ben = if before.len() > 200_000 || matches!(edit, Edit::AddMaxApplication(_)) { Benign::none() } else { ben };
        let rebuilt_file = ctx.disk.create(Vec::new());
        let captured: RefCell<Option<Vec<Block>>> = RefCell::new(None);
        let disk = ctx.disk.clone();
        let orig = ctx.disk.open(cur_file, ben).set_pos(cur_off as u64);
        ctx.note(|| format!("step {step}: update_file with edit {edit:?} on a {}-byte file", before.len()));
        let res = catch_unwind(AssertUnwindSafe(|| {
            update_file::<_, _, CbErr>(
                orig,
                || Ok(disk.open(rebuilt_file, ben)),
                |bl: &mut BlockList| {
                    apply_edit(bl, &edit, &ch).map_err(|()| CbErr::Callback)?;
                    *captured.borrow_mut() = Some(blocks_of(bl));
                    Ok(())
                },
            )
        }));
        let res = match res {
            Ok(r) => r,
            Err(_) => {
                let (loc, msg) = take_panic().unwrap_or_default();
                let v = crate::classify_panic(&loc, &msg);
                return viol(v.class, format!("step {step} edit {edit:?}: {msg}"));
            }
        };
        let after = ctx.disk.data(cur_file);
        let newf = ctx.disk.data(rebuilt_file);
        ctx.api(60, match &res {
            Ok(false) => 0,
            Ok(true) => 1,
            Err(_) => 2,
        });
        let edited = captured.borrow().clone();
        match res {
            Err(e) => {
                probe("c10_refused_or_failed_edit");
                if after != before {
                    return viol("original-touched", format!("step {step} edit {edit:?}: update_file failed with {e:?} but the original file changed"));
                }
                if matches!(edit, Edit::CommentFit(_) | Edit::CommentSet(_) | Edit::CommentRemove | Edit::Nothing | Edit::AddApplication(_) | Edit::AddMaxApplication(_) | Edit::PaddingRemove | Edit::PaddingAdd(_) | Edit::DropPictures | Edit::DropApplications) {
                    if let CbErr::Flac(t) = &e {
                        if !t.contains("ExcessiveBlockSize") {
                            return viol("meta-mismatch", format!("step {step}: a legal edit {edit:?} was refused: {t}"));
                        }
                    }
                }
            }
            Ok(false) => {
                probe("c10_in_place");
                let Some(edited) = edited else {
                    return viol("meta-mismatch", "update reported success without running the callback".to_string());
                };
                if after.len() != before.len() {
                    return viol("audio-moved", format!("step {step} edit {edit:?}: in-place update changed the file length {} -> {}", before.len(), after.len()));
                }
                if after[..cur_off] != before[..cur_off] {
                    return viol("audio-moved", format!("step {step} edit {edit:?}: the {cur_off} foreign bytes in front of the stream changed"));
                }
                let Ok(m) = refflac::parse_meta(&after, cur_off) else {
                    return viol("meta-mismatch", format!("step {step} edit {edit:?}: metadata unparseable after an in-place update"));
                };
                if after[m.audio_start..] != frame_bytes[..] {
                    return viol("audio-moved", format!("step {step} edit {edit:?}: bytes from the first frame on changed (metadata now ends at {})", m.audio_start));
                }
                match BlockList::read(Cursor::new(&after[cur_off..])) {
                    Ok(bl) => {
                        let got = blocks_of(&bl);
                        if !same_apart_from_first_padding(&got, &edited) {
                            return viol(
                                "meta-mismatch",
                                format!("step {step} edit {edit:?}: blocks read back differ from the edited list ({} vs {} blocks)", got.len(), edited.len()),
                            );
                        }
                    }
                    Err(e) => return viol("meta-mismatch", format!("step {step} edit {edit:?}: blocks unreadable after in-place update: {e:?}")),
                }
                if !newf.is_empty() {
                    return viol("meta-mismatch", format!("step {step}: in-place update also wrote {} bytes to the rebuilt file", newf.len()));
                }
            }
            Ok(true) => {
                probe("c10_rebuild_taken");
                let Some(edited) = edited else {
                    return viol("meta-mismatch", "update reported success without running the callback".to_string());
                };
                if after != before {
                    return viol("original-touched", format!("step {step} edit {edit:?}: rebuilt reported, but the original changed too"));
                }
                let Ok(mut want) = serialise(&edited) else {
                    return viol("meta-mismatch", format!("step {step} edit {edit:?}: update reported Ok(true) for a block list that cannot be serialised"));
                };
                want.extend_from_slice(&frame_bytes);
                if newf != want {
                    let at = newf.iter().zip(&want).position(|(a, b)| a != b);
                    return viol(
                        "audio-moved",
                        format!("step {step} edit {edit:?}: rebuilt file ({} bytes) is not the edited blocks followed by the identical frames ({} bytes); first difference at {at:?}", newf.len(), want.len()),
                    );
                }
                cur_file = rebuilt_file;
                cur_off = 0;
            }
        }
        // the audio still decodes to the same PCM
        let now = ctx.disk.data(cur_file)[cur_off..].to_vec();
        let d = decode_all(Cursor::new(&now), RKind::SampleToEnd, &ch, cfg.block as usize);
        if d.err.is_some() || d.samples != pcm.inter {
            return viol("audio-moved", format!("step {step} edit {edit:?}: file no longer decodes to the same PCM ({:?})", d.err));
        }
        if refflac::parse_meta(&now, 0).map(|m| m.audio_start > 8192).unwrap_or(false) {
            probe("c10_metadata_larger_than_8k");
        }
        if first_padding(&BlockList::read(Cursor::new(&now)).unwrap()).is_none() {
            probe("c10_no_padding");
        }
    }
    let nt = ctx.disk.0.borrow().frame_sized_transfers > 0;
    ctx.eval(steps, nt);
    Ok(())
}

// ------------------------------------------------------------------------------------------

fn streaminfo_extreme(ch: &Choices) -> Block {
    use flac_codec::metadata::Streaminfo;
    Streaminfo {
        minimum_block_size: *ch.pick("si.minb", &[16u16, 0, 65535, 4096]),
        maximum_block_size: *ch.pick("si.maxb", &[4096u16, 0, 65535, 16]),
        minimum_frame_size: std::num::NonZero::new(*ch.pick("si.minf", &[0u32, 1, (1 << 24) - 1])),
        maximum_frame_size: std::num::NonZero::new(*ch.pick("si.maxf", &[0u32, 14, (1 << 24) - 1])),
        sample_rate: *ch.pick("si.rate", &[44100u32, 0, 1, (1 << 20) - 1]),
        channels: std::num::NonZero::new(1 + ch.draw("si.ch", 8) as u8).unwrap(),
        bits_per_sample: (*ch.pick("si.bps", &[16u32, 1, 32, 4, 24, 2, 31])).try_into().unwrap(),
        total_samples: std::num::NonZero::new(*ch.pick("si.total", &[0u64, 1, 1000, (1 << 36) - 1])),
        md5: *ch.pick("si.md5", &[None, Some([0xFF; 16]), Some([1, 0, 0, 0, 0, 0, 0, 0, 0, 0, 0, 0, 0, 0, 0, 0])]),
    }
    .into()
}

pub fn run_c11(ctx: &mut Ctx) -> R {
    let ch = ctx.ch.clone();
    let break_rules = ch.draw("c11.break", 5) == 4;
    let mut blocks = vec![streaminfo_extreme(&ch)];
    blocks.extend(genmeta::draw_blocks(&ch, 6, break_rules));
    if break_rules && ch.draw("c11.break.kind", 3) == 0 {
        // STREAMINFO not first / twice
        let si = blocks[0].clone();
        blocks.push(si);
    }
    // rarely a block of the largest size the 24-bit length field can state, or a byte or two less
    let huge = !break_rules && ch.draw("c11.huge", 250) == 0;
    if huge {
        let body = (1usize << 24) - 1 - ch.draw("c11.huge.below", 7) as usize;
        let b: Block = match ch.draw("c11.huge.kind", 4) {
            0 => Padding { size: (body as u32).try_into().unwrap() }.into(),
            1 => Application { id: 0x68756765, data: vec![0x5A; body - 4] }.into(),
            2 => {
                // body = 4 + vendor + 4 + (4 + field)
                let vendor = "v".to_string();
                VorbisComment { vendor_string: vendor.clone(), fields: vec![format!("BIG={}", "b".repeat(body - 4 - vendor.len() - 4 - 4 - 4))] }.into()
            }
            _ => {
                // body = 4 + 4 + mime + 4 + description + 16 + 4 + data
                let (mime, desc) = ("image/png".to_string(), "d".to_string());
                Picture {
                    picture_type: PictureType::Other,
                    media_type: mime.clone(),
                    description: desc.clone(),
                    width: 1,
                    height: 1,
                    color_depth: 24,
                    colors_used: None,
                    data: vec![0xA7; body - 32 - mime.len() - desc.len()],
                }
                .into()
            }
        };
        // keep the single-instance rules: replace a block of the same kind if there is one
        blocks.retain(|x| std::mem::discriminant(x) != std::mem::discriminant(&b) || matches!(x, Block::Padding(_) | Block::Application(_)));
        blocks.push(b);
        probe("c11_block_at_24bit_size_limit");
    }
    ctx.describe(|| format!("blocks: {:?} break_rules={break_rules}", blocks.iter().map(|b| format!("{}", b.block_type())).collect::<Vec<_>>()));
    // megabytes through one-byte transfers would only spend the event budget
    let wben = if huge { Benign::none() } else { Benign::draw(&ch) };
    let rben = if huge { Benign::none() } else { Benign::draw(&ch) };
    let file = ctx.disk.create(Vec::new());
    let mut sink = wrap_sink(ctx.disk.open(file, wben), *ch.pick("c11.wcap", &[0usize, 0, 3, 100]));
    let wr = catch_unwind(AssertUnwindSafe(|| {
        let r = write_blocks(&mut sink, blocks.iter());
        let f = std::io::Write::flush(&mut sink);
        (r, f)
    }));
    let (wr, fl) = match wr {
        Ok(x) => x,
        Err(_) => {
            let (loc, msg) = take_panic().unwrap_or_default();
            let v = crate::classify_panic(&loc, &msg);
            return viol(v.class, format!("write_blocks: {msg}"));
        }
    };
    ctx.api(61, wr.is_ok() as u64);
    let nt = ctx.disk.0.borrow().frame_sized_transfers > 0;
    ctx.eval(0, nt);
    if let Err(e) = &wr {
        probe("c11_list_refused");
        // sanity: was it really a rule breaker, or an over-size block?
        let rule_broken = {
            let mut vc = 0;
            let mut st = 0;
            let mut png = 0;
            let mut icon = 0;
            let mut si = 0;
            for b in &blocks {
                match b {
                    Block::VorbisComment(_) => vc += 1,
                    Block::SeekTable(_) => st += 1,
                    Block::Streaminfo(_) => si += 1,
                    Block::Picture(p) if p.picture_type == PictureType::Png32x32 => png += 1,
                    Block::Picture(p) if p.picture_type == PictureType::GeneralFileIcon => icon += 1,
                    _ => {}
                }
            }
            vc > 1 || st > 1 || png > 1 || icon > 1 || si != 1
        };
        if !rule_broken {
            return viol("meta-mismatch", format!("write_blocks refused a list that obeys the single-instance and size rules: {e:?}"));
        }
        return Ok(());
    }
    if let Err(e) = fl {
        return viol("meta-mismatch", format!("flush failed without a hard fault: {e:?}"));
    }
    let media = ctx.disk.data(file);
    // sizes each block reports == bytes that reached the disk for it (boundaries from refflac)
    let Ok(m) = refflac::parse_meta(&media, 0) else {
        return viol("meta-mismatch", "write_blocks reported success but refflac cannot walk the written blocks".to_string());
    };
    if m.blocks.len() != blocks.len() || m.audio_start != media.len() {
        return viol("meta-mismatch", format!("{} blocks written, refflac sees {} (metadata ends at {} of {})", blocks.len(), m.blocks.len(), m.audio_start, media.len()));
    }
    for (i, (b, rb)) in blocks.iter().zip(&m.blocks).enumerate() {
        let ts = total_size(b);
        // `total_size` answers in the 24-bit size type: a block whose body is within 4 bytes of the limit
        // has no representable total (None); its body size must still be reported exactly
        if rb.len + 4 > (1 << 24) - 1 {
            if ts.is_some() || body_size(b) != Some(rb.len as u32) {
                return viol("meta-mismatch", format!("block {i} ({}) reports bytes {:?} / total_size {:?} but its body occupies {} bytes on the medium", b.block_type(), body_size(b), ts, rb.len));
            }
            probe("c11_total_size_not_representable");
        } else if ts != Some(rb.len as u32 + 4) || body_size(b) != Some(rb.len as u32) {
            return viol("meta-mismatch", format!("block {i} ({}) reports total_size {:?} but occupies {} bytes on the medium", b.block_type(), ts, rb.len + 4));
        }
    }
    // whenever the writer reports success the reader accepts its output, and it reads back equal
    let src = wrap_src(ctx.disk.open(file, rben), draw_bufcap(&ch));
    let rr = catch_unwind(AssertUnwindSafe(|| read_blocks(src).collect::<Result<Vec<Block>, _>>()));
    match rr {
        Err(_) => {
            let (loc, msg) = take_panic().unwrap_or_default();
            let v = crate::classify_panic(&loc, &msg);
            viol(v.class, format!("read_blocks: {msg}"))
        }
        Ok(Err(e)) => {
            if break_rules {
                // the writer accepted a rule-breaking list?
                return viol("meta-mismatch", format!("write_blocks accepted a list that read_blocks rejects: {e:?}"));
            }
            viol("meta-mismatch", format!("write_blocks reported success but the reader rejects its output: {e:?}"))
        }
        Ok(Ok(got)) => {
            if got != blocks {
                let i = got.iter().zip(&blocks).position(|(a, b)| a != b);
                return viol("meta-mismatch", format!("blocks read back differ from those written (first difference at block {i:?} of {})", blocks.len()));
            }
            probe("c11_roundtrip_ok");
            // the other readers of the same bytes must accept them too and agree
            let others = catch_unwind(AssertUnwindSafe(|| {
                let info = flac_codec::metadata::read_info(Cursor::new(&media)).map_err(|e| format!("{e:?}"));
                let list = BlockList::read(Cursor::new(&media)).map(|bl| blocks_of(&bl)).map_err(|e| format!("{e:?}"));
                let vc = flac_codec::metadata::read_block::<_, VorbisComment>(Cursor::new(&media)).map_err(|e| format!("{e:?}"));
                let pic = flac_codec::metadata::read_block::<_, Picture>(Cursor::new(&media)).map_err(|e| format!("{e:?}"));
                (info, list, vc, pic)
            }));
            let Ok((info, list, vc, pic)) = others else {
                let (loc, msg) = take_panic().unwrap_or_default();
                let v = crate::classify_panic(&loc, &msg);
                return viol(v.class, format!("read_info / BlockList::read / read_block on accepted output: {msg}"));
            };
            match info {
                Err(e) => return viol("meta-mismatch", format!("write_blocks reported success and read_blocks accepts the output, but read_info rejects it: {e} ({} blocks)", blocks.len())),
                Ok(si) => {
                    if Block::from(si) != blocks[0] {
                        return viol("meta-mismatch", "read_info returns a STREAMINFO different from the one written".to_string());
                    }
                }
            }
            match list {
                Err(e) => return viol("meta-mismatch", format!("read_blocks accepts the output but BlockList::read rejects it: {e}")),
                Ok(l) => {
                    if l.len() != blocks.len() || l[0] != blocks[0] {
                        return viol("meta-mismatch", format!("BlockList::read sees {} blocks, {} were written", l.len(), blocks.len()));
                    }
                }
            }
            let first_vc = blocks.iter().find_map(|b| if let Block::VorbisComment(c) = b { Some(c.clone()) } else { None });
            match vc {
                Err(e) => return viol("meta-mismatch", format!("read_block::<VorbisComment> rejects accepted output: {e}")),
                Ok(v) => {
                    if v != first_vc {
                        return viol("meta-mismatch", "read_block::<VorbisComment> does not return the first comment block written".to_string());
                    }
                }
            }
            let first_pic = blocks.iter().find_map(|b| if let Block::Picture(c) = b { Some(c.clone()) } else { None });
            match pic {
                Err(e) => return viol("meta-mismatch", format!("read_block::<Picture> rejects accepted output: {e}")),
                Ok(v) => {
                    if v != first_pic {
                        return viol("meta-mismatch", "read_block::<Picture> does not return the first picture block written".to_string());
                    }
                }
            }
            if blocks.len() == 1 {
                probe("c11_streaminfo_is_the_only_block");
            }
            Ok(())
        }
    }
}

/// C11, second half: every fault-derived byte sequence that the reader accepts can be written
/// again and re-read to an equal list (all single-bit flips of a metadata section)
pub fn run_c11_flips(ctx: &mut Ctx) -> R {
    let ch = ctx.ch.clone();
    let mut blocks = vec![streaminfo_extreme(&ch)];
    blocks.extend(genmeta::draw_blocks(&ch, 4, false));
    let Ok(bytes) = serialise(&blocks) else {
        ctx.skip_foreign("list could not be serialised");
        return Ok(());
    };
    if bytes.len() > 1500 {
        ctx.eval(0, false);
        return Ok(());
    }
    ctx.describe(|| format!("all single-bit flips of a {}-byte metadata section: {:?}", bytes.len(), blocks.iter().map(|b| format!("{}", b.block_type())).collect::<Vec<_>>()));
    // coordinates: every single-bit flip, then runs of all ones / all zeros (3 and 8 bytes at every byte
    // offset): fields taking their extreme values
    let nbits = bytes.len() * 8;
    let mut coords: Vec<(usize, usize, u8)> = (0..nbits).map(|b| (b, 0, 2u8)).collect();
    for at in 4..bytes.len() {
        for len in [3usize, 8] {
            coords.push((at, len, 0xFF));
            coords.push((at, len, 0x00));
        }
    }
    // and every two-bit flip inside the 24-bit length field of each block header (fill code 3: the two
    // bit positions): a block type with a size rule (SEEKTABLE: a multiple of 18) is only reached with a
    // wrong length through at least two flips
    {
        let mut pos = 4;
        while pos + 4 <= bytes.len() {
            let l = ((bytes[pos + 1] as usize) << 16) | ((bytes[pos + 2] as usize) << 8) | bytes[pos + 3] as usize;
            let first = (pos + 1) * 8;
            for i in 0..24 {
                for j in i + 1..24 {
                    coords.push((first + i, first + j, 3));
                }
            }
            probe("c11_double_flips_in_block_length");
            if bytes[pos] & 0x80 != 0 {
                break;
            }
            pos += 4 + l;
        }
    }
    for (ci, (bit, len, fill)) in coords.iter().copied().enumerate() {
        let mut b = bytes.clone();
        if fill == 2 {
            b[bit >> 3] ^= 0x80 >> (bit & 7);
        } else if fill == 3 {
            b[bit >> 3] ^= 0x80 >> (bit & 7);
            b[len >> 3] ^= 0x80 >> (len & 7);
        } else {
            let e = (bit + len).min(b.len());
            for x in &mut b[bit..e] {
                *x = fill;
            }
            probe("c11_extreme_value_run");
        }
        let bit = if fill == 2 { bit } else { ci };
        let d = Disk::new(&ctx.ch, false);
        let f = d.create(b.clone());
        let mark = crate::monitor::alloc_mark();
        let r = catch_unwind(AssertUnwindSafe(|| {
            let first = read_blocks(d.open(f, Benign::none())).collect::<Result<Vec<Block>, _>>();
            match first {
                Err(_) => Ok(false),
                Ok(list) => {
                    let again = serialise(&list).map_err(|e| format!("accepted by the reader but refused by the writer: {e}"))?;
                    let second = read_blocks(Cursor::new(&again)).collect::<Result<Vec<Block>, _>>().map_err(|e| format!("re-written bytes rejected by the reader: {e:?}"))?;
                    if second != list {
                        return Err("re-read list differs from the accepted list".to_string());
                    }
                    Ok(true)
                }
            }
        }));
        ctx.extra_events += d.seq();
        // a length field made large by the damage must not be believed before the bytes are there
        // (the same bound as C04's entry points: a constant plus a small multiple of the input)
        let peak = crate::monitor::alloc_peak_since(mark);
        let bound = 64 * 1024 * 1024 + 16 * b.len();
        if peak > bound {
            return viol("alloc>bound", format!("damage coordinate {:?} in a metadata section: peak allocation {peak} bytes for a {}-byte input (bound {bound})", coords[ci], b.len()));
        }
        match r {
            Err(_) => {
                let (loc, msg) = take_panic().unwrap_or_default();
                let v = crate::classify_panic(&loc, &msg);
                return viol(v.class, format!("damage coordinate {:?} in a metadata section: {msg}", coords[ci]));
            }
            Ok(Err(t)) => return viol("meta-mismatch", format!("damage coordinate {:?} (bit | (offset, length, fill)): {t}", coords[ci])),
            Ok(Ok(accepted)) => {
                ctx.eval_fp(mix(bit as u64, accepted as u64) ^ d.fp(), true);
                if accepted {
                    probe("c11_flipped_metadata_still_accepted");
                }
            }
        }
    }
    Ok(())
}
