//! refflac — an independent, deliberately plain RFC 9639 reader and validator.
//!
//! Shares no code, table or crate with flac-codec (own bit reader, bitwise CRCs, own tables).
//! Two severities: `hard` issues make the bytes definitely not a valid frame/stream;
//! `strict` issues are MUST-rules of RFC 9639 that a *writer* has to obey but where the
//! validator keeps parsing (used to judge the encoder in C02, never to judge a decoder).

pub struct Bits<'a> {
    d: &'a [u8],
    pub pos: usize, // in bits
}

#[derive(Debug, Clone, PartialEq, Eq)]
pub enum PErr {
    Eof,
    Bad(String),
}

type P<T> = Result<T, PErr>;

fn bad<T>(s: impl Into<String>) -> P<T> {
    Err(PErr::Bad(s.into()))
}

impl<'a> Bits<'a> {
    pub fn new(d: &'a [u8], byte_pos: usize) -> Self {
        Bits { d, pos: byte_pos * 8 }
    }
    pub fn bit(&mut self) -> P<u32> {
        let byte = self.pos >> 3;
        if byte >= self.d.len() {
            return Err(PErr::Eof);
        }
        let b = (self.d[byte] >> (7 - (self.pos & 7))) & 1;
        self.pos += 1;
        Ok(b as u32)
    }
    pub fn u(&mut self, n: u32) -> P<u64> {
        let mut v = 0u64;
        for _ in 0..n {
            v = (v << 1) | self.bit()? as u64;
        }
        Ok(v)
    }
    pub fn s(&mut self, n: u32) -> P<i64> {
        if n == 0 {
            return Ok(0);
        }
        let v = self.u(n)?;
        let sh = 64 - n;
        Ok(((v << sh) as i64) >> sh)
    }
    pub fn unary(&mut self) -> P<u64> {
        // count zeros up to the next one; byte-wise acceleration is not needed for small files
        let mut n = 0u64;
        loop {
            if self.bit()? == 1 {
                return Ok(n);
            }
            n += 1;
        }
    }
    pub fn byte_pos(&self) -> usize {
        self.pos.div_ceil(8)
    }
    pub fn aligned(&self) -> bool {
        self.pos & 7 == 0
    }
}

pub fn crc8(d: &[u8]) -> u8 {
    let mut c = 0u8;
    for &b in d {
        c ^= b;
        for _ in 0..8 {
            c = if c & 0x80 != 0 { (c << 1) ^ 0x07 } else { c << 1 };
        }
    }
    c
}

pub fn crc16(d: &[u8]) -> u16 {
    let mut c = 0u16;
    for &b in d {
        c ^= (b as u16) << 8;
        for _ in 0..8 {
            c = if c & 0x8000 != 0 { (c << 1) ^ 0x8005 } else { c << 1 };
        }
    }
    c
}

#[derive(Debug, Clone, PartialEq, Eq)]
pub struct RefStreamInfo {
    pub min_block: u16,
    pub max_block: u16,
    pub min_frame: u32,
    pub max_frame: u32,
    pub rate: u32,
    pub channels: u8,
    pub bps: u32,
    pub total: u64,
    pub md5: [u8; 16],
}

#[derive(Debug, Clone, PartialEq, Eq)]
pub struct RefBlock {
    pub kind: u8,
    pub last: bool,
    /// offset of the 4-byte block header
    pub offset: usize,
    /// payload length
    pub len: usize,
}

#[derive(Debug, Clone)]
pub struct RefMeta {
    pub si: RefStreamInfo,
    pub blocks: Vec<RefBlock>,
    /// (sample, offset, frame samples); sample == u64::MAX for placeholders
    pub seektable: Option<Vec<(u64, u64, u16)>>,
    pub audio_start: usize,
    pub issues: Vec<String>,
}

pub fn parse_meta(d: &[u8], start: usize) -> Result<RefMeta, PErr> {
    if d.len() < start + 4 {
        return Err(PErr::Eof);
    }
    if &d[start..start + 4] != b"fLaC" {
        return bad("missing fLaC marker");
    }
    let mut pos = start + 4;
    let mut blocks = Vec::new();
    let mut si = None;
    let mut seektable = None;
    let mut issues = Vec::new();
    loop {
        if d.len() < pos + 4 {
            return Err(PErr::Eof);
        }
        let last = d[pos] & 0x80 != 0;
        let kind = d[pos] & 0x7f;
        let len = ((d[pos + 1] as usize) << 16) | ((d[pos + 2] as usize) << 8) | d[pos + 3] as usize;
        if d.len() < pos + 4 + len {
            return Err(PErr::Eof);
        }
        let body = &d[pos + 4..pos + 4 + len];
        if kind == 127 {
            return bad("metadata block type 127 is forbidden");
        }
        if blocks.is_empty() && kind != 0 {
            return bad("first metadata block is not STREAMINFO");
        }
        if !blocks.is_empty() && kind == 0 {
            return bad("second STREAMINFO");
        }
        match kind {
            0 => {
                if len != 34 {
                    return bad("STREAMINFO length != 34");
                }
                let mut b = Bits::new(body, 0);
                let min_block = b.u(16)? as u16;
                let max_block = b.u(16)? as u16;
                let min_frame = b.u(24)? as u32;
                let max_frame = b.u(24)? as u32;
                let rate = b.u(20)? as u32;
                let channels = b.u(3)? as u8 + 1;
                let bps = b.u(5)? as u32 + 1;
                let total = b.u(36)?;
                let mut md5 = [0u8; 16];
                md5.copy_from_slice(&body[18..34]);
                if min_block < 16 || max_block < 16 {
                    issues.push("STREAMINFO block size < 16".into());
                }
                if min_block > max_block {
                    issues.push("STREAMINFO min block > max block".into());
                }
                si = Some(RefStreamInfo {
                    min_block,
                    max_block,
                    min_frame,
                    max_frame,
                    rate,
                    channels,
                    bps,
                    total,
                    md5,
                });
            }
            3 => {
                if seektable.is_some() {
                    return bad("second SEEKTABLE");
                }
                if len % 18 != 0 {
                    return bad("SEEKTABLE length not a multiple of 18");
                }
                let mut pts = Vec::new();
                for p in body.chunks_exact(18) {
                    let s = u64::from_be_bytes(p[0..8].try_into().unwrap());
                    let o = u64::from_be_bytes(p[8..16].try_into().unwrap());
                    let n = u16::from_be_bytes(p[16..18].try_into().unwrap());
                    pts.push((s, o, n));
                }
                seektable = Some(pts);
            }
            _ => {}
        }
        blocks.push(RefBlock {
            kind,
            last,
            offset: pos,
            len,
        });
        pos += 4 + len;
        if last {
            break;
        }
    }
    Ok(RefMeta {
        si: si.unwrap(),
        blocks,
        seektable,
        audio_start: pos,
        issues,
    })
}

#[derive(Debug, Clone, Copy, PartialEq, Eq)]
pub enum SubKind {
    Constant,
    Verbatim,
    Fixed(u8),
    Lpc(u8),
}

#[derive(Debug, Clone)]
pub struct SubInfo {
    pub kind: SubKind,
    pub wasted: u32,
    pub rice2: bool,
    pub part_order: Option<u32>,
    pub escaped: bool,
    pub zero_escape: bool,
    pub max_rice: u32,
    pub precision: u32,
    pub shift: u32,
    /// absolute bit offsets of fields, for building checksum-consistent corruptions
    pub header_bit: usize,
    pub method_bit: Option<usize>,
    pub porder_bit: Option<usize>,
    pub prec_bit: Option<usize>,
    pub shift_bit: Option<usize>,
    pub first_param_bit: Option<usize>,
}

#[derive(Debug, Clone)]
pub struct RefFrame {
    pub start: usize,
    pub end: usize,
    pub variable: bool,
    pub block_size: u32,
    pub bs_code: u8,
    pub rate_code: u8,
    pub rate: Option<u32>,
    pub assignment: u8,
    pub channels: u8,
    pub bps_code: u8,
    pub bps: Option<u32>,
    pub number: u64,
    pub number_len: usize,
    pub number_minimal: bool,
    pub header_len: usize,
    /// per channel, after undoing decorrelation
    pub samples: Vec<Vec<i64>>,
    pub subs: Vec<SubInfo>,
    pub strict: Vec<String>,
    pub padding_zero: bool,
    pub reserved_zero: bool,
}

impl RefFrame {
    pub fn canonical(&self) -> bool {
        self.number_minimal && self.padding_zero && self.reserved_zero
    }
    pub fn interleaved(&self) -> Vec<i32> {
        let n = self.block_size as usize;
        let mut o = Vec::with_capacity(n * self.samples.len());
        for i in 0..n {
            for c in &self.samples {
                o.push(c[i] as i32);
            }
        }
        o
    }
}

fn read_coded_number(b: &mut Bits) -> P<(u64, usize, bool)> {
    let first = b.u(8)?;
    let (extra, mut v) = if first & 0x80 == 0 {
        (0, first)
    } else if first & 0xE0 == 0xC0 {
        (1, first & 0x1F)
    } else if first & 0xF0 == 0xE0 {
        (2, first & 0x0F)
    } else if first & 0xF8 == 0xF0 {
        (3, first & 0x07)
    } else if first & 0xFC == 0xF8 {
        (4, first & 0x03)
    } else if first & 0xFE == 0xFC {
        (5, first & 0x01)
    } else if first == 0xFE {
        (6, 0)
    } else {
        return bad("invalid coded number lead byte");
    };
    for _ in 0..extra {
        let c = b.u(8)?;
        if c & 0xC0 != 0x80 {
            return bad("invalid coded number continuation byte");
        }
        v = (v << 6) | (c & 0x3F);
    }
    // minimal length?
    let need = match v {
        0..=0x7F => 0,
        0x80..=0x7FF => 1,
        0x800..=0xFFFF => 2,
        0x10000..=0x1FFFFF => 3,
        0x200000..=0x3FFFFFF => 4,
        0x4000000..=0x7FFFFFFF => 5,
        _ => 6,
    };
    Ok((v, extra + 1, need == extra))
}

fn fits(v: i64, bits: u32) -> bool {
    if bits >= 64 {
        return true;
    }
    let lo = -(1i64 << (bits - 1));
    let hi = (1i64 << (bits - 1)) - 1;
    v >= lo && v <= hi
}

fn read_residual(
    b: &mut Bits,
    block: u32,
    order: u32,
    out: &mut Vec<i64>,
    info: &mut SubInfo,
    strict: &mut Vec<String>,
) -> P<()> {
    info.method_bit = Some(b.pos);
    let method = b.u(2)?;
    if method > 1 {
        return bad("reserved residual coding method");
    }
    let pbits = if method == 0 { 4 } else { 5 };
    info.rice2 = method == 1;
    let esc = (1u64 << pbits) - 1;
    info.porder_bit = Some(b.pos);
    let porder = b.u(4)? as u32;
    info.part_order = Some(porder);
    let parts = 1u32 << porder;
    if porder > 0 && block % parts != 0 {
        return bad(format!("block size {block} not divisible by 2^{porder} partitions"));
    }
    let per = block >> porder;
    if per < order {
        return bad(format!(
            "partition length {per} smaller than predictor order {order} (negative first partition)"
        ));
    }
    if per == order {
        strict.push(format!(
            "RFC9639 9.2.7: (block size >> partition order) = {per} must be larger than the predictor order {order}"
        ));
    }
    for p in 0..parts {
        let n = if p == 0 { per - order } else { per };
        if p == 0 {
            info.first_param_bit = Some(b.pos);
        }
        let param = b.u(pbits)?;
        if param == esc {
            info.escaped = true;
            let w = b.u(5)? as u32;
            if w == 0 {
                info.zero_escape = true;
            }
            for _ in 0..n {
                out.push(b.s(w)?);
            }
        } else {
            info.max_rice = info.max_rice.max(param as u32);
            for _ in 0..n {
                let q = b.unary()?;
                let r = b.u(param as u32)?;
                // guard against absurd unary runs in damaged data (value would exceed 2^40)
                if q > (1u64 << 40) {
                    return bad("unary run too long");
                }
                let u = (q << param) | r;
                let v = if u & 1 == 1 { -((u >> 1) as i64) - 1 } else { (u >> 1) as i64 };
                out.push(v);
            }
        }
    }
    for &v in out.iter() {
        if v <= i32::MIN as i64 || v > i32::MAX as i64 {
            strict.push("RFC9639 9.2.7.3: residual not representable in 32 bits (excluding most negative)".into());
            break;
        }
    }
    Ok(())
}

fn read_subframe(b: &mut Bits, block: u32, bps: u32, strict: &mut Vec<String>, zero_pad: &mut bool) -> P<(Vec<i64>, SubInfo)> {
    let header_bit = b.pos;
    if b.bit()? != 0 {
        *zero_pad = false;
        return bad("subframe header padding bit is 1");
    }
    let t = b.u(6)? as u32;
    let wasted = if b.bit()? == 1 { b.unary()? as u32 + 1 } else { 0 };
    if wasted >= bps {
        return bad(format!("wasted bits {wasted} >= subframe bit depth {bps}"));
    }
    let ebps = bps - wasted;
    let mut info = SubInfo {
        kind: SubKind::Constant,
        wasted,
        rice2: false,
        part_order: None,
        escaped: false,
        zero_escape: false,
        max_rice: 0,
        precision: 0,
        shift: 0,
        header_bit,
        method_bit: None,
        porder_bit: None,
        prec_bit: None,
        shift_bit: None,
        first_param_bit: None,
    };
    let n = block as usize;
    let mut s: Vec<i64> = Vec::with_capacity(n);
    match t {
        0 => {
            let v = b.s(ebps)?;
            s.resize(n, v);
        }
        1 => {
            info.kind = SubKind::Verbatim;
            for _ in 0..n {
                s.push(b.s(ebps)?);
            }
        }
        8..=12 => {
            let order = t - 8;
            info.kind = SubKind::Fixed(order as u8);
            if order > block {
                return bad("fixed predictor order exceeds block size");
            }
            for _ in 0..order {
                s.push(b.s(ebps)?);
            }
            let mut res = Vec::with_capacity(n);
            read_residual(b, block, order, &mut res, &mut info, strict)?;
            for r in res {
                let i = s.len();
                let p: i64 = match order {
                    0 => 0,
                    1 => s[i - 1],
                    2 => 2i64.wrapping_mul(s[i - 1]).wrapping_sub(s[i - 2]),
                    3 => 3i64
                        .wrapping_mul(s[i - 1])
                        .wrapping_sub(3i64.wrapping_mul(s[i - 2]))
                        .wrapping_add(s[i - 3]),
                    _ => 4i64
                        .wrapping_mul(s[i - 1])
                        .wrapping_sub(6i64.wrapping_mul(s[i - 2]))
                        .wrapping_add(4i64.wrapping_mul(s[i - 3]))
                        .wrapping_sub(s[i - 4]),
                };
                s.push(p.wrapping_add(r));
            }
        }
        32..=63 => {
            let order = t - 31;
            info.kind = SubKind::Lpc(order as u8);
            if order > block {
                return bad("LPC order exceeds block size");
            }
            for _ in 0..order {
                s.push(b.s(ebps)?);
            }
            info.prec_bit = Some(b.pos);
            let prec = b.u(4)? as u32;
            if prec == 15 {
                return bad("LPC precision code 1111 is forbidden");
            }
            let prec = prec + 1;
            info.shift_bit = Some(b.pos);
            let shift = b.s(5)?;
            if shift < 0 {
                return bad("negative LPC shift is forbidden");
            }
            info.precision = prec;
            info.shift = shift as u32;
            let mut coef = Vec::with_capacity(order as usize);
            for _ in 0..order {
                coef.push(b.s(prec)?);
            }
            let mut res = Vec::with_capacity(n);
            read_residual(b, block, order, &mut res, &mut info, strict)?;
            for r in res {
                let i = s.len();
                let mut acc: i64 = 0;
                for (j, c) in coef.iter().enumerate() {
                    acc = acc.wrapping_add(c.wrapping_mul(s[i - 1 - j]));
                }
                s.push((acc >> shift).wrapping_add(r));
            }
        }
        _ => return bad(format!("reserved subframe type {t}")),
    }
    if s.len() != n {
        return bad("subframe sample count mismatch");
    }
    for &v in &s {
        if !fits(v, ebps) {
            strict.push(format!("decoded sample {v} does not fit the subframe bit depth {ebps}"));
            break;
        }
    }
    if wasted > 0 {
        for v in s.iter_mut() {
            *v = v.wrapping_shl(wasted);
        }
    }
    Ok((s, info))
}

/// Parses one frame at byte offset `pos`. `si` supplies STREAMINFO-referenced rate / depth.
pub fn parse_frame(d: &[u8], pos: usize, si: Option<&RefStreamInfo>) -> P<RefFrame> {
    let mut b = Bits::new(d, pos);
    let sync = b.u(15)?;
    if sync != 0b111111111111100 {
        return bad("bad sync code");
    }
    let variable = b.bit()? == 1;
    let bs_code = b.u(4)? as u8;
    let rate_code = b.u(4)? as u8;
    let assignment = b.u(4)? as u8;
    let bps_code = b.u(3)? as u8;
    let reserved = b.bit()?;
    if bs_code == 0 {
        return bad("reserved block size code 0000");
    }
    if rate_code == 15 {
        return bad("forbidden sample rate code 1111");
    }
    if assignment > 10 {
        return bad("reserved channel assignment");
    }
    if bps_code == 3 {
        return bad("reserved bit depth code 011");
    }
    let (number, number_len, number_minimal) = read_coded_number(&mut b)?;
    let number_too_wide = !variable && number > 0x7FFF_FFFF;
    let block_size: u32 = match bs_code {
        1 => 192,
        2..=5 => 576 << (bs_code - 2),
        6 => b.u(8)? as u32 + 1,
        7 => {
            let v = b.u(16)? as u32;
            if v == 65535 {
                return bad("block size 65536 is not allowed");
            }
            v + 1
        }
        _ => 256 << (bs_code - 8),
    };
    let rate: Option<u32> = match rate_code {
        0 => si.map(|s| s.rate),
        1 => Some(88200),
        2 => Some(176400),
        3 => Some(192000),
        4 => Some(8000),
        5 => Some(16000),
        6 => Some(22050),
        7 => Some(24000),
        8 => Some(32000),
        9 => Some(44100),
        10 => Some(48000),
        11 => Some(96000),
        12 => Some(b.u(8)? as u32 * 1000),
        13 => Some(b.u(16)? as u32),
        _ => Some(b.u(16)? as u32 * 10),
    };
    let bps: Option<u32> = match bps_code {
        0 => si.map(|s| s.bps),
        1 => Some(8),
        2 => Some(12),
        4 => Some(16),
        5 => Some(20),
        6 => Some(24),
        _ => Some(32),
    };
    let hdr_end = b.byte_pos();
    let c8 = b.u(8)? as u8;
    if crc8(&d[pos..hdr_end]) != c8 {
        return bad("CRC-8 mismatch");
    }
    let header_len = hdr_end + 1 - pos;
    let Some(bps_v) = bps else {
        return bad("bit depth refers to STREAMINFO but none is available");
    };
    let channels = if assignment < 8 { assignment + 1 } else { 2 };
    let mut strict = Vec::new();
    let mut zero_pad = true;
    let mut subs = Vec::new();
    let mut chans: Vec<Vec<i64>> = Vec::new();
    for c in 0..channels {
        let side = matches!((assignment, c), (8, 1) | (9, 0) | (10, 1));
        let sb = bps_v + side as u32;
        let (s, info) = read_subframe(&mut b, block_size, sb, &mut strict, &mut zero_pad)?;
        chans.push(s);
        subs.push(info);
    }
    // footer padding
    let mut padding_zero = true;
    while !b.aligned() {
        if b.bit()? != 0 {
            padding_zero = false;
        }
    }
    let body_end = b.byte_pos();
    let c16 = b.u(16)? as u16;
    if crc16(&d[pos..body_end]) != c16 {
        return bad("CRC-16 mismatch");
    }
    let end = body_end + 2;
    // undo decorrelation
    match assignment {
        8 => {
            let (l, s) = (chans[0].clone(), chans[1].clone());
            chans[1] = l.iter().zip(&s).map(|(l, s)| l.wrapping_sub(*s)).collect();
        }
        9 => {
            let (s, r) = (chans[0].clone(), chans[1].clone());
            chans[0] = s.iter().zip(&r).map(|(s, r)| s.wrapping_add(*r)).collect();
        }
        10 => {
            let (m, s) = (chans[0].clone(), chans[1].clone());
            let mut l = Vec::with_capacity(m.len());
            let mut r = Vec::with_capacity(m.len());
            for (m, s) in m.iter().zip(&s) {
                let mm = m.wrapping_shl(1) | (s & 1);
                l.push(mm.wrapping_add(*s) >> 1);
                r.push(mm.wrapping_sub(*s) >> 1);
            }
            chans[0] = l;
            chans[1] = r;
        }
        _ => {}
    }
    for c in &chans {
        if c.iter().any(|&v| !fits(v, bps_v)) {
            strict.push(format!("reconstructed sample does not fit the frame bit depth {bps_v}"));
            break;
        }
    }
    if !padding_zero {
        strict.push("RFC9639 9.3: frame footer padding bits are not zero".into());
    }
    if reserved != 0 {
        strict.push("RFC9639 9.1: reserved header bit is not zero".into());
    }
    if !number_minimal {
        strict.push("coded number is not minimal length".into());
    }
    if number_too_wide {
        // a range rule, not a code-table entry: the crate accepts such frames, and so they must obey
        // C17's round-trip clause; recorded as a strict issue only
        strict.push("frame number exceeds 31 bits".into());
    }
    Ok(RefFrame {
        start: pos,
        end,
        variable,
        block_size,
        bs_code,
        rate_code,
        rate,
        assignment,
        channels,
        bps_code,
        bps: Some(bps_v),
        number,
        number_len,
        number_minimal,
        header_len,
        samples: chans,
        subs,
        strict,
        padding_zero,
        reserved_zero: reserved == 0,
    })
}

#[derive(Debug, Clone, PartialEq, Eq)]
pub enum StreamEnd {
    /// the data ended exactly at a frame boundary
    Clean,
    /// data ended inside a frame that started at this offset
    Truncated(usize),
    /// bytes at this offset are not a valid frame
    Invalid(usize, String),
    /// stopped because the declared total was reached; trailing bytes follow at this offset
    TotalReached(usize),
}

#[derive(Debug, Clone)]
pub struct RefStream {
    pub meta: RefMeta,
    pub frames: Vec<RefFrame>,
    pub end: StreamEnd,
    /// stream-level hard problems (sequence, STREAMINFO consistency)
    pub hard: Vec<String>,
    /// stream-level writer rules
    pub strict: Vec<String>,
}

impl RefStream {
    pub fn pcm(&self) -> Vec<i32> {
        let mut o = Vec::new();
        for f in &self.frames {
            o.extend(f.interleaved());
        }
        o
    }
    pub fn total_frames(&self) -> u64 {
        self.frames.iter().map(|f| f.block_size as u64).sum()
    }
    pub fn is_valid(&self) -> bool {
        self.hard.is_empty() && matches!(self.end, StreamEnd::Clean | StreamEnd::TotalReached(_))
    }
}

/// Reads metadata and then frames back to back until the data ends or something is not a frame.
pub fn parse_stream(d: &[u8], start: usize) -> Result<RefStream, PErr> {
    let meta = parse_meta(d, start)?;
    let si = meta.si.clone();
    let mut frames: Vec<RefFrame> = Vec::new();
    let mut hard = Vec::new();
    let mut strict = Vec::new();
    let mut pos = meta.audio_start;
    let mut decoded: u64 = 0;
    let end = loop {
        if si.total != 0 && decoded >= si.total {
            break if pos == d.len() { StreamEnd::Clean } else { StreamEnd::TotalReached(pos) };
        }
        if pos >= d.len() {
            break StreamEnd::Clean;
        }
        match parse_frame(d, pos, Some(&si)) {
            Ok(f) => {
                // STREAMINFO consistency
                if f.rate != Some(si.rate) {
                    hard.push(format!("frame {} sample rate {:?} != STREAMINFO {}", frames.len(), f.rate, si.rate));
                }
                if f.channels != si.channels {
                    hard.push(format!("frame {} channels {} != STREAMINFO {}", frames.len(), f.channels, si.channels));
                }
                if f.bps != Some(si.bps) {
                    hard.push(format!("frame {} bit depth {:?} != STREAMINFO {}", frames.len(), f.bps, si.bps));
                }
                if f.block_size > si.max_block as u32 {
                    hard.push(format!(
                        "frame {} block size {} > STREAMINFO maximum {}",
                        frames.len(),
                        f.block_size,
                        si.max_block
                    ));
                }
                if let Some(prev) = frames.last() {
                    if prev.variable != f.variable {
                        strict.push("blocking strategy changes mid-stream".into());
                    }
                    if prev.block_size < 16 {
                        hard.push(format!("non-final frame {} has block size {} < 16", frames.len() - 1, prev.block_size));
                    }
                    if !f.variable {
                        if f.number != prev.number + 1 {
                            strict.push(format!("frame numbers not consecutive: {} after {}", f.number, prev.number));
                        }
                        if si.min_block == si.max_block && prev.block_size != si.max_block as u32 {
                            strict.push(format!(
                                "non-final frame {} has block size {} != advertised {}",
                                frames.len() - 1,
                                prev.block_size,
                                si.max_block
                            ));
                        }
                    } else if f.number != decoded {
                        strict.push(format!("sample number {} != running position {}", f.number, decoded));
                    }
                } else if !f.variable && f.number != 0 {
                    strict.push(format!("first frame number is {}", f.number));
                }
                for s in &f.strict {
                    strict.push(format!("frame {}: {s}", frames.len()));
                }
                decoded += f.block_size as u64;
                pos = f.end;
                frames.push(f);
            }
            Err(PErr::Eof) => break StreamEnd::Truncated(pos),
            Err(PErr::Bad(why)) => break StreamEnd::Invalid(pos, why),
        }
    };
    if si.total != 0 && matches!(end, StreamEnd::Clean | StreamEnd::TotalReached(_)) && decoded != si.total {
        hard.push(format!("STREAMINFO total {} != decoded {}", si.total, decoded));
    }
    if si.total != 0 && decoded > si.total {
        hard.push(format!("decoded {} samples, more than STREAMINFO total {}", decoded, si.total));
    }
    // RFC 9639 8.2: the frame-size bounds are either 0 (unknown) or bounds of the frames in the stream
    if let Some(f) = frames.iter().find(|f| si.max_frame != 0 && (f.end - f.start) as u32 > si.max_frame) {
        strict.push(format!("RFC9639 8.2: frame {} has {} bytes, STREAMINFO maximum frame size is {}", f.number, f.end - f.start, si.max_frame));
    }
    if let Some(f) = frames.iter().find(|f| si.min_frame != 0 && ((f.end - f.start) as u32) < si.min_frame) {
        strict.push(format!("RFC9639 8.2: frame {} has {} bytes, STREAMINFO minimum frame size is {}", f.number, f.end - f.start, si.min_frame));
    }
    Ok(RefStream {
        meta,
        frames,
        end,
        hard,
        strict,
    })
}

/// header-only mode for raw frame streams: frames back to back, parameters from each header
pub fn parse_raw_frames(d: &[u8]) -> (Vec<RefFrame>, StreamEnd) {
    let mut pos = 0;
    let mut frames = Vec::new();
    loop {
        if pos >= d.len() {
            return (frames, StreamEnd::Clean);
        }
        match parse_frame(d, pos, None) {
            Ok(f) => {
                pos = f.end;
                frames.push(f);
            }
            Err(PErr::Eof) => return (frames, StreamEnd::Truncated(pos)),
            Err(PErr::Bad(w)) => return (frames, StreamEnd::Invalid(pos, w)),
        }
    }
}

pub fn pcm_md5(inter: &[i32], bps: u32) -> [u8; 16] {
    let bytes = bps.div_ceil(8) as usize;
    let mut v = Vec::with_capacity(inter.len() * bytes);
    for s in inter {
        v.extend_from_slice(&s.to_le_bytes()[..bytes]);
    }
    md5::compute(v).0
}


/// overwrite `n` bits at absolute bit offset `at` with the low bits of `v`
pub fn set_bits(d: &mut [u8], at: usize, n: usize, v: u64) {
    for i in 0..n {
        let bit = (v >> (n - 1 - i)) & 1;
        let pos = at + i;
        let mask = 0x80u8 >> (pos & 7);
        if bit == 1 {
            d[pos >> 3] |= mask;
        } else {
            d[pos >> 3] &= !mask;
        }
    }
}

/// recompute CRC-8 (header of `header_len` bytes incl. the CRC byte) and CRC-16 of the frame
/// occupying d[start..end]
pub fn repair_crcs(d: &mut [u8], start: usize, header_len: usize, end: usize, fix8: bool) {
    if fix8 && header_len >= 2 && start + header_len <= d.len() {
        let c = crc8(&d[start..start + header_len - 1]);
        d[start + header_len - 1] = c;
    }
    if end >= start + 2 && end <= d.len() {
        let c = crc16(&d[start..end - 2]);
        d[end - 2] = (c >> 8) as u8;
        d[end - 1] = c as u8;
    }
}

// ------------------------------------------------------------------------------------------
// independent frame *writer* (RFC 9639 section 9), used to build generator-made frames without
// going through the crate's structural writer

pub struct BitOut {
    pub bytes: Vec<u8>,
    nbits: usize,
}

impl BitOut {
    pub fn new() -> Self {
        BitOut { bytes: Vec::new(), nbits: 0 }
    }
    pub fn put(&mut self, n: u32, v: u64) {
        assert!(n <= 64, "BitOut::put of {n} bits");
        for i in (0..n).rev() {
            let bit = ((v >> i) & 1) as u8;
            if self.nbits % 8 == 0 {
                self.bytes.push(0);
            }
            let last = self.bytes.len() - 1;
            self.bytes[last] |= bit << (7 - (self.nbits % 8));
            self.nbits += 1;
        }
    }
    pub fn put_signed(&mut self, n: u32, v: i64) {
        let mask = if n >= 64 { u64::MAX } else { (1u64 << n) - 1 };
        self.put(n, (v as u64) & mask);
    }
    pub fn unary(&mut self, mut q: u64) {
        while q > 0 && self.nbits % 8 != 0 {
            self.put(1, 0);
            q -= 1;
        }
        while q >= 8 {
            self.bytes.push(0);
            self.nbits += 8;
            q -= 8;
        }
        for _ in 0..q {
            self.put(1, 0);
        }
        self.put(1, 1);
    }
    pub fn align(&mut self) {
        while self.nbits % 8 != 0 {
            self.put(1, 0);
        }
    }
}

#[derive(Debug, Clone)]
pub enum PartSpec {
    /// Rice parameter, residuals
    Rice(u32, Vec<i64>),
    /// escape width (1..=31), residuals
    Escaped(u32, Vec<i64>),
    /// escape width 0: all residuals zero
    Zero(usize),
}

#[derive(Debug, Clone)]
pub enum SubSpec {
    Constant { sample: i64 },
    Verbatim { samples: Vec<i64> },
    Fixed { order: u32, warm_up: Vec<i64>, method1: bool, parts: Vec<PartSpec> },
    Lpc { order: u32, warm_up: Vec<i64>, precision: u32, shift: u32, coefs: Vec<i64>, method1: bool, parts: Vec<PartSpec> },
}

/// deliberate deviations from the grammar, for checksum-valid malformed frames; all default to None
#[derive(Debug, Clone, Default)]
pub struct Bend {
    /// 6-bit subframe type code written instead of the one the body implies
    pub type_code: Option<u8>,
    /// subframe header padding bit
    pub pad_bit: Option<u8>,
    /// 2-bit residual coding method code
    pub method_code: Option<u8>,
    /// 4-bit partition order written instead of log2(number of partitions)
    pub porder: Option<u32>,
    /// 4-bit LPC precision code
    pub precision_code: Option<u8>,
    /// 5-bit raw LPC shift field
    pub shift_raw: Option<u8>,
    /// number of bits each warm-up / verbatim / constant sample is written with
    pub sample_bits: Option<u32>,
}

#[derive(Debug, Clone)]
pub struct SubframeSpec {
    /// subframe bit depth before wasted bits are removed (frame depth, +1 for a side channel)
    pub bits: u32,
    pub wasted: u32,
    pub body: SubSpec,
    pub bend: Bend,
}

#[derive(Debug, Clone, Default)]
pub struct HeaderBend {
    pub sync: Option<u16>,
    pub bs_code: Option<u8>,
    pub reserved_bit: Option<u8>,
    /// raw bytes written instead of the coded number
    pub number_bytes: Option<Vec<u8>>,
    /// value written in the 8/16-bit block size extension
    pub bs_ext: Option<u32>,
    pub footer_pad_ones: bool,
    /// value written in the 8-bit / 16-bit sample-rate extension field (rate codes 12, 13, 14)
    pub rate_ext: Option<u32>,
    /// blocking strategy bit: the coded number is the number of the frame's first sample (legal)
    pub variable: bool,
}

#[derive(Debug, Clone)]
pub struct FrameSpec {
    pub block_size: u32,
    pub rate_code: u8,
    /// 0..=7 independent (channels-1), 8 left/side, 9 side/right, 10 mid/side
    pub assignment: u8,
    pub bps_code: u8,
    pub number: u64,
    pub subs: Vec<SubframeSpec>,
    pub bend: HeaderBend,
}

fn put_coded_number(o: &mut BitOut, v: u64) {
    if v < 0x80 {
        o.put(8, v);
        return;
    }
    let (extra, lead, bits) = if v < 0x800 {
        (1, 0xC0u64, 5)
    } else if v < 0x1_0000 {
        (2, 0xE0, 4)
    } else if v < 0x20_0000 {
        (3, 0xF0, 3)
    } else if v < 0x400_0000 {
        (4, 0xF8, 2)
    } else if v < 0x8000_0000 {
        (5, 0xFC, 1)
    } else {
        (6, 0xFE, 0)
    };
    let top = if bits == 0 { 0 } else { (v >> (6 * extra)) & ((1 << bits) - 1) };
    o.put(8, lead | top);
    for i in (0..extra).rev() {
        o.put(8, 0x80 | ((v >> (6 * i)) & 0x3F));
    }
}

fn put_residual(o: &mut BitOut, method1: bool, parts: &[PartSpec], bend: &Bend) {
    o.put(2, bend.method_code.map(|m| m as u64).unwrap_or(method1 as u64));
    o.put(4, bend.porder.map(|p| p as u64).unwrap_or(parts.len().trailing_zeros() as u64));
    let pbits = if method1 { 5 } else { 4 };
    let esc = (1u64 << pbits) - 1;
    for p in parts {
        match p {
            PartSpec::Rice(k, r) => {
                o.put(pbits, *k as u64);
                for v in r {
                    let u = if *v < 0 { ((-(*v) as u64) << 1) - 1 } else { (*v as u64) << 1 };
                    o.unary(u >> k);
                    o.put(*k, u & ((1u64 << k) - 1));
                }
            }
            PartSpec::Escaped(w, r) => {
                o.put(pbits, esc);
                o.put(5, *w as u64);
                for v in r {
                    o.put_signed(*w, *v);
                }
            }
            PartSpec::Zero(_) => {
                o.put(pbits, esc);
                o.put(5, 0);
            }
        }
    }
}

/// serialises one frame exactly as RFC 9639 section 9 lays it out
pub fn write_frame(f: &FrameSpec) -> Vec<u8> {
    let mut o = BitOut::new();
    o.put(15, f.bend.sync.map(|s| s as u64).unwrap_or(0b111111111111100));
    o.put(1, f.bend.variable as u64); // blocking strategy
    let natural_bs_code: u64 = match f.block_size {
        192 => 1,
        576 => 2,
        1152 => 3,
        2304 => 4,
        4608 => 5,
        256 => 8,
        512 => 9,
        1024 => 10,
        2048 => 11,
        4096 => 12,
        8192 => 13,
        16384 => 14,
        32768 => 15,
        n if n <= 256 => 6,
        _ => 7,
    };
    let bs_code = f.bend.bs_code.map(|c| c as u64).unwrap_or(natural_bs_code);
    o.put(4, bs_code);
    o.put(4, f.rate_code as u64);
    o.put(4, f.assignment as u64);
    o.put(3, f.bps_code as u64);
    o.put(1, f.bend.reserved_bit.unwrap_or(0) as u64);
    match &f.bend.number_bytes {
        Some(b) => {
            for x in b {
                o.put(8, *x as u64);
            }
        }
        None => put_coded_number(&mut o, f.number),
    }
    let ext = f.bend.bs_ext.unwrap_or(f.block_size.wrapping_sub(1)) as u64;
    match bs_code {
        6 => o.put(8, ext & 0xFF),
        7 => o.put(16, ext & 0xFFFF),
        _ => {}
    }
    match f.rate_code {
        12 => o.put(8, f.bend.rate_ext.unwrap_or(44) as u64 & 0xFF),
        13 => o.put(16, f.bend.rate_ext.unwrap_or(44100) as u64 & 0xFFFF),
        14 => o.put(16, f.bend.rate_ext.unwrap_or(4410) as u64 & 0xFFFF),
        _ => {}
    }
    let c8 = crc8(&o.bytes);
    o.put(8, c8 as u64);
    for s in &f.subs {
        o.put(1, s.bend.pad_bit.unwrap_or(0) as u64);
        let natural_ty: u64 = match &s.body {
            SubSpec::Constant { .. } => 0,
            SubSpec::Verbatim { .. } => 1,
            SubSpec::Fixed { order, .. } => 8 + *order as u64,
            SubSpec::Lpc { order, .. } => 31 + *order as u64,
        };
        o.put(6, s.bend.type_code.map(|t| t as u64).unwrap_or(natural_ty) & 0x3F);
        if s.wasted > 0 {
            o.put(1, 1);
            o.unary(s.wasted as u64 - 1);
        } else {
            o.put(1, 0);
        }
        let eb = s.bend.sample_bits.unwrap_or(s.bits.saturating_sub(s.wasted));
        match &s.body {
            SubSpec::Constant { sample } => o.put_signed(eb, *sample),
            SubSpec::Verbatim { samples } => {
                for v in samples {
                    o.put_signed(eb, *v);
                }
            }
            SubSpec::Fixed { warm_up, method1, parts, .. } => {
                for v in warm_up {
                    o.put_signed(eb, *v);
                }
                put_residual(&mut o, *method1, parts, &s.bend);
            }
            SubSpec::Lpc { warm_up, precision, shift, coefs, method1, parts, .. } => {
                for v in warm_up {
                    o.put_signed(eb, *v);
                }
                o.put(4, s.bend.precision_code.map(|c| c as u64).unwrap_or((*precision - 1) as u64));
                o.put(5, s.bend.shift_raw.map(|c| c as u64).unwrap_or(*shift as u64));
                for c in coefs {
                    o.put_signed(*precision, *c);
                }
                put_residual(&mut o, *method1, parts, &s.bend);
            }
        }
    }
    if f.bend.footer_pad_ones {
        while o.nbits % 8 != 0 {
            o.put(1, 1);
        }
    }
    o.align();
    let c16 = crc16(&o.bytes);
    o.put(16, c16 as u64);
    o.bytes
}
