//! flacsim — deterministic simulation worker.
//!
//!   flacsim run    <prop> <scenario> <tier> <seed> <from> <count> <fpfile> [--trace-runs]
//!   flacsim replay <prop> <scenario> <tier> <choices-file>          (prints trace + verdict)
//!   flacsim shrink <prop> <scenario> <tier> <choices-file> <budget> (prints minimised choices)
//!   flacsim merge-fp <files...>                                     (prints distinct count)
//!
//! One process = one thread = one deterministic execution per run.

#![allow(dead_code)]
mod core;
mod disk;
mod genr;
mod minimize;
mod monitor;
mod refflac;
mod rng;
mod genmeta;
mod scen_c13;
mod scen_c14;
mod scen_c16;
mod scen_bent;
mod scen_c17;
mod scen_dmg;
mod scen_meta;
mod scen_rd;
mod scen_synth;
mod scen_wr;
mod scen_rt;
mod world;

use crate::core::*;
use crate::rng::{Choices, hash_str, mix};
use std::collections::HashSet;
use std::io::Write;
use std::panic::{AssertUnwindSafe, catch_unwind};

#[global_allocator]
static ALLOC: monitor::CountingAlloc = monitor::CountingAlloc;

pub type Scenario = fn(&mut Ctx) -> R;

pub fn lookup(scen: &str) -> Option<Scenario> {
    Some(match scen {
        "rt" => scen_rt::run,
        "c13" => scen_c13::run,
        "c10" => scen_meta::run_c10,
        "c10big" => scen_meta::run_c10_big,
        "c11" => scen_meta::run_c11,
        "c11flips" => scen_meta::run_c11_flips,
        "dmg" => scen_dmg::run,
        "dmgcat" => scen_dmg::run_catalogue,
        "c16" => scen_c16::run,
        "rawrt" => scen_c16::run_raw,
        "c09big" => scen_rt::run_c09_big,
        "c02big" => scen_rt::run_c02_big,
        "rtsweep" => scen_rt::run_short_sweep,
        "synth" => scen_synth::run,
        "bent" => scen_bent::run,
        "c17gen" => scen_c17::run_gen,
        "sizes" => scen_rt::run_sizes,
        "dmggen" => scen_dmg::run_gen,
        "c06gen" => scen_rd::run_c06_gen,
        "c07gen" => scen_rd::run_c07_gen,
        "c16sweep" => scen_c16::run_sweeps,
        "c08" => scen_wr::run_c08,
        "c08huge" => scen_wr::run_c08_huge,
        "c15" => scen_wr::run_c15,
        "c07" => scen_rd::run_c07,
        "c07split" => scen_rd::run_c07_split,
        "c06" => scen_rd::run_c06,
        "c14" => scen_c14::run,
        "c14big" => scen_c14::run_big,
        _ => return None,
    })
}

pub struct RunResult {
    pub violation: Option<Violation>,
    pub choices: Vec<u64>,
    pub evals: Vec<(u64, bool)>,
    pub sample: Option<String>,
    pub trace: Vec<String>,
    pub events: u64,
    pub foreign: Option<String>,
    pub labelled: Vec<(&'static str, u64, u64)>,
}

pub fn classify_panic(loc: &str, msg: &str) -> Violation {
    if msg.starts_with(disk::HANG_MSG) {
        Violation {
            class: "hang".into(),
            msg: msg.to_string(),
        }
    } else if loc.starts_with("sim/src/") && !msg.starts_with("harness: consume") {
        Violation {
            class: format!("HARNESS-PANIC@{loc}"),
            msg: msg.to_string(),
        }
    } else {
        Violation {
            class: format!("panic@{loc}"),
            msg: msg.to_string(),
        }
    }
}

pub fn execute(prop: &str, scen: Scenario, tier: Tier, ch: Choices, trace: bool, want_sample: bool, run: u64) -> RunResult {
    let mut ctx = Ctx::new(prop, tier, ch.clone(), trace, run);
    ctx.want_sample = want_sample;
    let _ = monitor::take_panic();
    let r = catch_unwind(AssertUnwindSafe(|| scen(&mut ctx)));
    let violation = match r {
        Ok(Ok(())) => None,
        Ok(Err(v)) => Some(v),
        Err(_) => {
            let (loc, msg) = monitor::take_panic().unwrap_or(("?".into(), "?".into()));
            Some(classify_panic(&loc, &msg))
        }
    };
    if violation.is_some() && ctx.evals.is_empty() {
        ctx.eval(0, true);
    }
    RunResult {
        violation,
        choices: ch.values(),
        evals: std::mem::take(&mut ctx.evals),
        sample: ctx.sample.take(),
        trace: ctx.disk.take_trace(),
        events: ctx.disk.seq() + ctx.extra_events,
        foreign: ctx.foreign.take(),
        labelled: if trace { ch.labelled() } else { Vec::new() },
    }
}

pub fn run_seed(seed: u64, prop: &str, scen_name: &str, run: u64) -> u64 {
    mix(mix(mix(seed, hash_str(prop)), hash_str(scen_name)), run)
}

fn parse_tier(s: &str) -> Tier {
    if s == "thorough" { Tier::Thorough } else { Tier::Quick }
}

fn read_choices(path: &str) -> Vec<u64> {
    let s = std::fs::read_to_string(path).expect("choices file");
    s.split(|c: char| !c.is_ascii_digit())
        .filter(|t| !t.is_empty())
        .map(|t| t.parse::<u64>().unwrap())
        .collect()
}

fn fmt_choices(v: &[u64]) -> String {
    let mut s = String::new();
    for (i, x) in v.iter().enumerate() {
        if i > 0 {
            s.push(',');
        }
        s.push_str(&x.to_string());
    }
    s
}

// ------------------------------------------------------------------------------------------
// wall-clock watchdog: the simulated sources detect a reader that polls them forever (SIM-HANG), but
// a loop that never touches a simulated source (e.g. over an in-memory Cursor) would spin for good.
// One run that exceeds VERIF_RUN_TIMEOUT_S seconds is reported as a hang and the process ends; the
// orchestrator attributes it to the run and carries on after it. The limit is far above any
// legitimate run (the longest take a few seconds), so it does not decide anything on a healthy tree.

static WD_RUN: std::sync::atomic::AtomicU64 = std::sync::atomic::AtomicU64::new(u64::MAX);
static WD_START_MS: std::sync::atomic::AtomicU64 = std::sync::atomic::AtomicU64::new(0);

fn now_ms() -> u64 {
    use std::time::{SystemTime, UNIX_EPOCH};
    SystemTime::now().duration_since(UNIX_EPOCH).map(|d| d.as_millis() as u64).unwrap_or(0)
}

/// marks the start of run `run` (u64::MAX = no run in progress)
fn watchdog_mark(run: u64) {
    use std::sync::atomic::Ordering::SeqCst;
    WD_START_MS.store(now_ms(), SeqCst);
    WD_RUN.store(run, SeqCst);
}

fn start_watchdog(replay: bool) {
    let limit_s: u64 = std::env::var("VERIF_RUN_TIMEOUT_S").ok().and_then(|v| v.parse().ok()).unwrap_or(600);
    std::thread::spawn(move || {
        use std::sync::atomic::Ordering::SeqCst;
        loop {
            std::thread::sleep(std::time::Duration::from_millis(500));
            let run = WD_RUN.load(SeqCst);
            if run == u64::MAX {
                continue;
            }
            let started = WD_START_MS.load(SeqCst);
            if now_ms().saturating_sub(started) > limit_s * 1000 {
                if replay {
                    println!(
                        "RESULT {{\"violation\":true,\"class\":\"hang\",\"msg\":\"the run did not finish within {limit_s} s of wall clock (a loop that makes no progress and touches no simulated source)\"}}"
                    );
                    std::process::exit(0);
                }
                eprintln!("HANG run={run} after {limit_s}s");
                std::process::exit(3);
            }
        }
    });
}

fn main() {
    let args: Vec<String> = std::env::args().collect();
    if args.len() < 2 {
        eprintln!("usage: flacsim run|replay|shrink|merge-fp ...");
        std::process::exit(2);
    }
    monitor::install_panic_hook();
    match args[1].as_str() {
        "run" | "shrink" => start_watchdog(false),
        "replay" | "replay-gen" => start_watchdog(true),
        _ => {}
    }
    match args[1].as_str() {
        "run" => cmd_run(&args[2..]),
        "replay" => cmd_replay(&args[2..]),
        "replay-gen" => cmd_replay_gen(&args[2..]),
        "shrink" => cmd_shrink(&args[2..]),
        "merge-fp" => cmd_merge(&args[2..]),
        "refcheck" => cmd_refcheck(&args[2..]),
        "framesinfo" => cmd_framesinfo(&args[2..]),
        _ => {
            eprintln!("unknown command");
            std::process::exit(2);
        }
    }
}

fn cmd_merge(files: &[String]) {
    let mut all: Vec<u64> = Vec::new();
    for f in files {
        if let Ok(b) = std::fs::read(f) {
            for c in b.chunks_exact(8) {
                all.push(u64::from_le_bytes(c.try_into().unwrap()));
            }
        }
    }
    all.sort_unstable();
    all.dedup();
    println!("{}", all.len());
}

fn cmd_run(a: &[String]) {
    let prop = &a[0];
    let scen_name = &a[1];
    let tier = parse_tier(&a[2]);
    let seed: u64 = a[3].parse().unwrap();
    let from: u64 = a[4].parse().unwrap();
    let count: u64 = a[5].parse().unwrap();
    let fpfile = &a[6];
    let trace_runs = a.iter().any(|x| x == "--trace-runs");
    let Some(scen) = lookup(scen_name) else {
        eprintln!("unknown scenario {scen_name}");
        std::process::exit(2);
    };
    let out = std::io::stdout();
    let mut out = out.lock();
    let mut fps: HashSet<u64> = HashSet::new();
    let mut evals: u64 = 0;
    let mut events: u64 = 0;
    let mut viols: u64 = 0;
    let mut foreign: u64 = 0;
    let mut foreign_sample: Option<String> = None;
    let mut samples: Vec<String> = Vec::new();
    let mut digest: u64 = 0;
    for run in from..from + count {
        if trace_runs {
            writeln!(out, "{{\"t\":\"start\",\"run\":{run}}}").unwrap();
            out.flush().unwrap();
        }
        let ch = Choices::generate(run_seed(seed, prop, scen_name, run));
        let want = samples.len() < 3 && (run - from) % 97 == 0;
        watchdog_mark(run);
        let r = execute(prop, scen, tier, ch, false, want, run);
        watchdog_mark(u64::MAX);
        evals += r.evals.len() as u64;
        events += r.events;
        for (fp, nt) in &r.evals {
            digest = mix(digest, *fp);
            if *nt {
                fps.insert(*fp);
            }
        }
        if let Some(s) = r.sample {
            samples.push(s);
        }
        if let Some(f) = r.foreign {
            foreign += 1;
            if foreign_sample.is_none() {
                foreign_sample = Some(f);
            }
        }
        if let Some(v) = r.violation {
            viols += 1;
            if viols <= 40 {
                writeln!(
                    out,
                    "{{\"t\":\"viol\",\"run\":{run},\"class\":\"{}\",\"msg\":\"{}\",\"choices\":\"{}\"}}",
                    json_escape(&v.class),
                    json_escape(&v.msg),
                    fmt_choices(&r.choices)
                )
                .unwrap();
            }
        }
    }
    // fingerprints to file
    let mut buf = Vec::with_capacity(fps.len() * 8);
    for f in &fps {
        buf.extend_from_slice(&f.to_le_bytes());
    }
    std::fs::write(fpfile, buf).expect("write fp file");
    let (faults, probes, notes) = monitor::STATS.with(|s| {
        let s = s.borrow();
        let f = s.faults.iter().map(|(k, v)| format!("\"{k}\":{v}")).collect::<Vec<_>>().join(",");
        let p = s.probes.iter().map(|(k, v)| format!("\"{k}\":{v}")).collect::<Vec<_>>().join(",");
        let n = s.notes.iter().map(|(k, v)| format!("\"{}\":{v}", json_escape(k))).collect::<Vec<_>>().join(",");
        (f, p, n)
    });
    let samples_json = samples.iter().map(|s| format!("\"{}\"", json_escape(s))).collect::<Vec<_>>().join(",");
    writeln!(
        out,
        "{{\"t\":\"sum\",\"runs\":{count},\"evals\":{evals},\"events\":{events},\"violations\":{viols},\"distinct\":{},\"digest\":\"{digest:016x}\",\"foreign\":{foreign},\"foreign_sample\":\"{}\",\"faults\":{{{faults}}},\"probes\":{{{probes}}},\"notes\":{{{notes}}},\"samples\":[{samples_json}]}}",
        fps.len(),
        json_escape(&foreign_sample.unwrap_or_default()),
    )
    .unwrap();
}

fn cmd_replay_gen(a: &[String]) {
    let prop = &a[0];
    let scen_name = &a[1];
    let tier = parse_tier(&a[2]);
    let seed: u64 = a[3].parse().unwrap();
    let run: u64 = a[4].parse().unwrap();
    let Some(scen) = lookup(scen_name) else {
        eprintln!("unknown scenario {scen_name}");
        std::process::exit(2);
    };
    let ch = Choices::generate(run_seed(seed, prop, scen_name, run));
    watchdog_mark(run);
    let r = execute(prop, scen, tier, ch, true, true, run);
    watchdog_mark(u64::MAX);
    print_replay(r);
}

fn cmd_replay(a: &[String]) {
    let prop = &a[0];
    let scen_name = &a[1];
    let tier = parse_tier(&a[2]);
    let vals = read_choices(&a[3]);
    let Some(scen) = lookup(scen_name) else {
        eprintln!("unknown scenario {scen_name}");
        std::process::exit(2);
    };
    watchdog_mark(0);
    let r = execute(prop, scen, tier, Choices::replay(vals), true, true, 0);
    watchdog_mark(u64::MAX);
    print_replay(r);
}

fn print_replay(r: RunResult) {
    for l in &r.trace {
        println!("TRACE {l}");
    }
    let lab = r
        .labelled
        .iter()
        .map(|(l, n, v)| format!("[\"{l}\",{n},{v}]"))
        .collect::<Vec<_>>()
        .join(",");
    println!("LABELLED [{lab}]");
    match r.violation {
        Some(v) => {
            println!("RESULT {{\"violation\":true,\"class\":\"{}\",\"msg\":\"{}\"}}", json_escape(&v.class), json_escape(&v.msg));
        }
        None => println!("RESULT {{\"violation\":false}}"),
    }
}

fn cmd_shrink(a: &[String]) {
    let prop = &a[0];
    let scen_name = &a[1];
    let tier = parse_tier(&a[2]);
    let vals = read_choices(&a[3]);
    let budget: usize = a[4].parse().unwrap();
    let Some(scen) = lookup(scen_name) else {
        eprintln!("unknown scenario {scen_name}");
        std::process::exit(2);
    };
    let (best, class, msg, tries) = minimize::shrink(prop, scen, tier, vals, budget);
    println!(
        "SHRUNK {{\"choices\":\"{}\",\"class\":\"{}\",\"msg\":\"{}\",\"tries\":{tries}}}",
        fmt_choices(&best),
        json_escape(&class),
        json_escape(&msg)
    );
}


/// sanity of the reference model: every libFLAC-made fixture of the repository must be a valid stream
/// for refflac, with refflac's PCM hashing to the stored MD5 and equal to the crate's decode
/// refflac's view of a (possibly unfinished) file, for the syscall-level engine
fn cmd_framesinfo(files: &[String]) {
    for f in files {
        let bytes = std::fs::read(f).unwrap_or_default();
        match refflac::parse_stream(&bytes, 0) {
            Ok(s) => {
                let pcm = s.pcm();
                let mut b = Vec::with_capacity(pcm.len() * 4);
                for v in &pcm {
                    b.extend_from_slice(&v.to_le_bytes());
                }
                let a = s.meta.audio_start.min(bytes.len());
                println!(
                    "{{\"ok\":true,\"len\":{},\"audio_start\":{},\"frames\":{},\"frame_ends\":{:?},\"frame_samples\":{:?},\"samples\":{},\"pcm_md5\":\"{:x}\",\"audio_md5\":\"{:x}\",\"meta_md5\":\"{:x}\",\"end\":\"{}\",\"valid\":{}}}",
                    bytes.len(),
                    s.meta.audio_start,
                    s.frames.len(),
                    s.frames.iter().map(|f| f.end).collect::<Vec<_>>(),
                    s.frames.iter().map(|f| f.block_size as usize * f.channels as usize).collect::<Vec<_>>(),
                    pcm.len(),
                    md5::compute(&b),
                    md5::compute(&bytes[a..]),
                    md5::compute(&bytes[..a]),
                    json_escape(&format!("{:?}", s.end)),
                    s.is_valid()
                );
            }
            Err(e) => println!("{{\"ok\":false,\"len\":{},\"error\":\"{}\"}}", bytes.len(), json_escape(&format!("{e:?}"))),
        }
    }
}

fn cmd_refcheck(files: &[String]) {
    let mut bad = 0;
    for f in files {
        let bytes = std::fs::read(f).expect("fixture");
        match refflac::parse_stream(&bytes, 0) {
            Ok(s) => {
                let pcm = s.pcm();
                let md5_ok = s.meta.si.md5 == [0u8; 16] || refflac::pcm_md5(&pcm, s.meta.si.bps) == s.meta.si.md5;
                let mut r = flac_codec::decode::FlacSampleReader::new(std::io::Cursor::new(&bytes)).expect("crate opens fixture");
                let mut v = Vec::new();
                let cr = r.read_to_end(&mut v);
                let same = cr.is_ok() && v == pcm;
                // strict (writer-side) rules are informational here: four hand-made fixtures number every frame 0
                let ok = s.is_valid() && md5_ok && same;
                println!(
                    "REFCHECK {} frames={} samples={} valid={} strict_issues={} md5_ok={md5_ok} equals_crate_decode={same} -> {}",
                    f,
                    s.frames.len(),
                    pcm.len(),
                    s.is_valid(),
                    s.strict.len(),
                    if ok { "ok" } else { "MISMATCH" }
                );
                if !ok {
                    bad += 1;
                    println!("   end={:?} hard={:?} strict={:?}", s.end, s.hard.first(), s.strict.first());
                }
            }
            Err(e) => {
                bad += 1;
                println!("REFCHECK {f}: refflac cannot parse: {e:?}");
            }
        }
    }
    std::process::exit(if bad == 0 { 0 } else { 2 });
}
