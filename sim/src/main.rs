fn main() { println!("hello"); }
