//! Choice-sequence shrinker: delete spans, zero, halve, decrement — accept a candidate when it
//! still ends in a violation of the same class.

use crate::core::Tier;
use crate::rng::Choices;
use crate::{Scenario, execute};

fn class_of(prop: &str, scen: Scenario, tier: Tier, vals: &[u64]) -> Option<(String, String, Vec<u64>)> {
    let r = execute(prop, scen, tier, Choices::replay(vals.to_vec()), false, false, 0);
    r.violation.map(|v| {
        // what the run actually consumed, with trailing zeros removed (they are implied)
        let mut used = r.choices;
        while used.last() == Some(&0) {
            used.pop();
        }
        (v.class, v.msg, used)
    })
}

pub fn shrink(prop: &str, scen: Scenario, tier: Tier, vals: Vec<u64>, budget: usize) -> (Vec<u64>, String, String, usize) {
    let start = std::time::Instant::now();
    let Some((class, mut msg, mut best)) = class_of(prop, scen, tier, &vals) else {
        return (vals, "NOT-REPRODUCED".into(), String::new(), 1);
    };
    let mut tries = 1usize;
    let mut improved = true;
    let over = |tries: usize| tries >= budget || start.elapsed().as_secs() > 60;
    while improved && !over(tries) {
        improved = false;
        // 1. delete spans
        let mut size = 64usize.min(best.len().max(1));
        while size >= 1 {
            let mut i = 0;
            while i + size <= best.len() && !over(tries) {
                let mut cand = best.clone();
                cand.drain(i..i + size);
                tries += 1;
                match class_of(prop, scen, tier, &cand) {
                    Some((c, m, used)) if c == class && used.len() < best.len() => {
                        best = used;
                        msg = m;
                        improved = true;
                    }
                    _ => i += size.max(1),
                }
            }
            if size == 1 {
                break;
            }
            size /= 2;
        }
        // 2. zero / halve / decrement individual values
        let mut i = 0;
        while i < best.len() && !over(tries) {
            let orig = best[i];
            if orig == 0 {
                i += 1;
                continue;
            }
            let mut done = false;
            for cand_v in [0, orig / 2, orig - 1] {
                if cand_v >= orig {
                    continue;
                }
                let mut cand = best.clone();
                cand[i] = cand_v;
                tries += 1;
                if let Some((c, m, used)) = class_of(prop, scen, tier, &cand) {
                    if c == class && (used.len() < best.len() || (used.len() == best.len() && used < best)) {
                        best = used;
                        msg = m;
                        improved = true;
                        done = true;
                        break;
                    }
                }
            }
            if !done {
                i += 1;
            }
        }
    }
    (best, class, msg, tries)
}
