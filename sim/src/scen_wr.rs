//! Writer histories: C08 (file depends only on PCM and options) and C15 (constructors validate,
//! length contract honoured).

use crate::core::*;
use crate::disk::{Benign, Disk};
use crate::genr::*;
use crate::monitor::{probe, take_panic};
use crate::rng::{Choices, mix};
use crate::world::*;
use flac_codec::byteorder::LittleEndian;
use flac_codec::encode::{FlacByteWriter, FlacChannelWriter, FlacSampleWriter, FlacStreamWriter, Options};
use std::io::{Cursor, Write};
use std::panic::{AssertUnwindSafe, catch_unwind};

fn golden(cfg: &Cfg, pcm: &Pcm) -> Result<Vec<u8>, String> {
    let mut cur = Cursor::new(Vec::new());
    let declared = cfg.declare_total.then_some(pcm.inter.len() as u64);
    let mut w =
        FlacSampleWriter::new(&mut cur, cfg.options(), cfg.rate, cfg.bps, cfg.channels, declared).map_err(|e| format!("new: {e:?}"))?;
    w.write(&pcm.inter).map_err(|e| format!("write: {e:?}"))?;
    w.finalize().map_err(|e| format!("finalize: {e:?}"))?;
    Ok(cur.into_inner())
}

/// one variant: encode on its own simulated disk, return the stream bytes
fn variant(
    ctx: &mut Ctx,
    cfg: &Cfg,
    pcm: &Pcm,
    kind: WKind,
    chunks: &[usize],
    ben: Benign,
    cap: usize,
    off: usize,
    tail: &[i32],
    label: &str,
    gold: &[u8],
) -> R {
    let d = Disk::new(&ctx.ch, ctx.trace);
    let file = d.create(vec![0x3C; off]);
    let f = d.open(file, ben).set_pos(off as u64);
    let mut sink = wrap_sink(f, cap);
    let declared = cfg.declare_total.then(|| total_for(kind, pcm));
    // a byte writer may also be flushed between its write calls (every third variant)
    crate::world::FLUSH_BETWEEN.with(|f| f.set((chunks.len() + off + cap) % 3 == 0));
    let r = catch_unwind(AssertUnwindSafe(|| {
        let r = encode(&mut sink, cfg, pcm, kind, chunks, declared, EndMode::Finalize, tail, &mut || {});
        let fl = sink.flush();
        (r, fl)
    }));
    crate::world::FLUSH_BETWEEN.with(|f| f.set(false));
    ctx.extra_events += d.seq();
    let fired = d.faults_in_run() > 0;
    ctx.eval_fp(mix(d.fp(), kind as u64), true);
    if fired {
        probe("c08_variant_with_faults");
    }
    match r {
        Err(_) => {
            let (loc, msg) = take_panic().unwrap_or_default();
            let v = crate::classify_panic(&loc, &msg);
            ctx.adopt_trace(&d, label);
            viol(v.class, format!("{label}: {msg}"))
        }
        Ok((Err(e), _)) => {
            ctx.adopt_trace(&d, label);
            viol("file-differs", format!("{label}: encoder failed where the one-call encode succeeded: {e:?}"))
        }
        Ok((Ok(()), Err(e))) => viol("file-differs", format!("{label}: flush failed without a hard fault: {e:?}")),
        Ok((Ok(()), Ok(()))) => {
            let media = d.data(file);
            if media[..off].iter().any(|b| *b != 0x3C) {
                ctx.adopt_trace(&d, label);
                return viol("file-differs", format!("{label}: bytes before the stream start were overwritten"));
            }
            if media[off..] != *gold {
                ctx.adopt_trace(&d, label);
                let at = media[off..].iter().zip(gold).position(|(a, b)| a != b);
                return viol(
                    "file-differs",
                    format!(
                        "{label}: {} bytes vs {} bytes of the one-call sample-writer encode; first difference at {:?}",
                        media.len() - off,
                        gold.len(),
                        at
                    ),
                );
            }
            Ok(())
        }
    }
}

pub fn run_c08(ctx: &mut Ctx) -> R {
    let ch = ctx.ch.clone();
    let mut cfg = draw_cfg(&ch, true);
    cfg.block = 16 + ch.draw("c08.block", 64) as u16;
    cfg.offset = 0;
    let mut frames = draw_len(&ch, &cfg, 3).min(600 / cfg.channels as usize).max(1);
    // one run in twelve: a block that carries more than 64 KiB of PCM (whatever is batched, buffered or
    // hashed per block in fixed-size pieces is then exercised), compared across front-ends only
    let big = ch.draw("c08.bigblock", 12) == 11;
    if big {
        let (b, c, bits) = *ch.pick("c08.bigblock.shape", &[(32768u16, 2u8, 16u32), (16385, 2, 16), (4096, 6, 24), (4096, 8, 32), (11000, 2, 24)]);
        cfg.block = b;
        cfg.channels = c;
        cfg.bps = bits;
        cfg.lpc = None;
        frames = b as usize + 1 + ch.draw("c08.bigblock.extra", 40) as usize;
        probe("c08_block_larger_than_64k_of_pcm");
    }
    let pcm = draw_pcm(&ch, cfg.channels, cfg.bps, frames);
    ctx.describe(|| format!("{} frames={} pcm={}", cfg.describe(), pcm.frames, short_vec(&pcm.inter, 16)));
    let gold = match golden(&cfg, &pcm) {
        Ok(g) => g,
        Err(e) => {
            ctx.skip_foreign(format!("one-call encode failed ({e}) — C01's matter"));
            return Ok(());
        }
    };
    // same run repeated
    match golden(&cfg, &pcm) {
        Ok(g2) if g2 == gold => {}
        _ => return viol("file-differs", "two identical one-call encodes produced different files"),
    }
    ctx.api(30, 0);
    let family = if big { 1 } else { ch.draw("c08.family", 4) };
    match family {
        0 => {
            // every two-way split point through a drawn front-end
            let kind = draw_wkind(&ch);
            let (total, _) = chunk_units(kind, &pcm);
            probe("c08_two_way_sweep");
            for s in 0..=total {
                variant(ctx, &cfg, &pcm, kind, &[s, total - s], Benign::none(), 0, 0, &[], &format!("writer={kind:?} split at {s} of {total}"), &gold)?;
            }
            Ok(())
        }
        1 | 2 => {
            // drawn multi-way chunkings, all front-ends, buffers, faults, offsets
            for _ in 0..3 {
                let kind = draw_wkind(&ch);
                let chunks = draw_write_chunks(&ch, kind, &pcm);
                let ben = Benign::draw(&ch);
                let cap = *ch.pick("c08.cap", &[0usize, 0, 1, 16, 100, 8192]);
                let off = *ch.pick("c08.off", &[0usize, 0, 1, 9, 4097]);
                variant(
                    ctx,
                    &cfg,
                    &pcm,
                    kind,
                    &chunks,
                    ben,
                    cap,
                    off,
                    &[],
                    &format!("writer={kind:?} chunks={} bufwriter={cap} offset={off} faults={ben:?}", short_vec(&chunks, 10)),
                    &gold,
                )?;
            }
            Ok(())
        }
        _ => {
            // trailing partial PCM frame must be dropped
            let kind = *ch.pick("c08.tail.kind", &[WKind::Sample, WKind::ByteLE, WKind::ByteBE]);
            let unit = match kind {
                WKind::Sample => cfg.channels as usize,
                _ => cfg.channels as usize * cfg.bytes_per_sample(),
            };
            if unit < 2 {
                return Ok(());
            }
            let mut c2 = cfg.clone();
            c2.declare_total = false;
            let mut pcm2 = pcm.clone();
            if ch.draw("c08.tail.onblock", 2) == 1 {
                // only a partial frame remains buffered after whole blocks
                let whole = (pcm.frames / cfg.block as usize).max(1) * cfg.block as usize;
                if whole <= pcm.frames {
                    pcm2.frames = whole;
                    pcm2.inter.truncate(whole * pcm.channels);
                    probe("c08_only_partial_frame_after_whole_blocks");
                }
            }
            let gold2 = match golden(&c2, &pcm2) {
                Ok(g) => g,
                Err(e) => {
                    ctx.skip_foreign(format!("one-call encode failed ({e})"));
                    return Ok(());
                }
            };
            let t = 1 + ch.draw("c08.tail.n", unit as u64 - 1) as usize;
            let tail: Vec<i32> = (0..t).map(|i| (i as i32 * 7 + 1) & 0x7f).collect();
            probe("c08_trailing_partial_frame");
            let chunks = draw_write_chunks(&ch, kind, &pcm2);
            variant(
                ctx,
                &c2,
                &pcm2,
                kind,
                &chunks,
                Benign::none(),
                0,
                0,
                &tail,
                &format!("writer={kind:?} with a trailing partial PCM frame of {t} of {unit} units, chunks={}", short_vec(&chunks, 8)),
                &gold2,
            )
        }
    }
}

/// C08 with megabytes of PCM: whatever a front-end caps, batches or counts per call in a fixed-size
/// piece (a buffer limit, a 32-bit byte count) is exercised by one call that carries all of it; the same
/// PCM in 65539-unit calls and through the other front-ends must give the same file.
pub fn run_c08_huge(ctx: &mut Ctx) -> R {
    let ch = ctx.ch.clone();
    let mut cfg = draw_cfg(&ch, true);
    let (c, bits) = *ch.pick("c08.huge.shape", &[(1u8, 16u32), (2, 16), (1, 8), (2, 24), (1, 32)]);
    cfg.channels = c;
    cfg.bps = bits;
    cfg.block = *ch.pick("c08.huge.block", &[4096u16, 4608, 1152, 16384]);
    cfg.lpc = None;
    cfg.offset = 0;
    cfg.tags = 0;
    cfg.seek = *ch.pick("c08.huge.seek", &[SeekPolicy::Off, SeekPolicy::Off, SeekPolicy::Seconds(1)]);
    // total PCM bytes: around 1, 2, 4, 8 MiB and in between
    let mib = 1usize << 20;
    let bytes = *ch.pick("c08.huge.bytes", &[mib + mib / 2, 2 * mib + 17, 4 * mib + 4096, 5 * mib, 6 * mib + 1, 8 * mib + 64, 9 * mib])
        + ch.draw("c08.huge.extra", 4096) as usize;
    let frames = bytes / (c as usize * cfg.bytes_per_sample());
    let pcm = draw_pcm(&ch, cfg.channels, cfg.bps, frames);
    ctx.describe(|| format!("{} frames={} ({} bytes of PCM)", cfg.describe(), pcm.frames, bytes));
    probe("c08_megabytes_in_one_call");
    let gold = match golden(&cfg, &pcm) {
        Ok(g) => g,
        Err(e) => {
            ctx.skip_foreign(format!("one-call encode failed ({e}) — C01's matter"));
            return Ok(());
        }
    };
    ctx.api(31, 0);
    for kind in WKINDS {
        let (total, _) = chunk_units(kind, &pcm);
        variant(ctx, &cfg, &pcm, kind, &[total], Benign::none(), 0, 0, &[], &format!("writer={kind:?} one call of {total} units"), &gold)?;
        let piece = *ch.pick("c08.huge.piece", &[65539usize, 1 << 20, 4097, (1 << 22) + 1]);
        let mut chunks = Vec::new();
        let mut left = total;
        while left > 0 {
            let n = left.min(piece);
            chunks.push(n);
            left -= n;
        }
        variant(ctx, &cfg, &pcm, kind, &chunks, Benign::none(), 0, 0, &[], &format!("writer={kind:?} calls of {piece} units"), &gold)?;
    }
    Ok(())
}

// ------------------------------------------------------------------------------------------
// C15

const RATES15: [u32; 9] = [0, 1, 8000, 44100, 65535, 655350, (1 << 20) - 1, 1 << 20, u32::MAX];

fn ctor(kind: usize, opts: Options, rate: u32, bps: u32, chn: u8, total: Option<u64>) -> Result<Vec<u8>, String> {
    // constructs, writes nothing, drops: Ok(bytes so far) | Err(error text)
    let mut cur = Cursor::new(Vec::new());
    let r = match kind {
        0 => FlacSampleWriter::new(&mut cur, opts, rate, bps, chn, total).map(drop),
        1 => FlacByteWriter::endian(&mut cur, LittleEndian, opts, rate, bps, chn, total).map(drop),
        _ => FlacChannelWriter::new(&mut cur, opts, rate, bps, chn, total).map(drop),
    };
    r.map(|()| cur.into_inner()).map_err(|e| format!("{e:?}"))
}

fn documented_ok(rate: u32, bps: u32, chn: u8) -> bool {
    (1..=32).contains(&bps) && (1..=8).contains(&chn) && rate < (1 << 20)
}

fn roundtrip_small(cfg: &Cfg, frames: usize, seed: u64) -> Result<(), String> {
    let ch = Choices::generate(seed);
    let pcm = draw_pcm(&ch, cfg.channels, cfg.bps, frames);
    let bytes = golden(cfg, &pcm)?;
    let mut r = flac_codec::decode::FlacSampleReader::new(Cursor::new(bytes)).map_err(|e| format!("open: {e:?}"))?;
    let mut v = Vec::new();
    r.read_to_end(&mut v).map_err(|e| format!("decode: {e:?}"))?;
    if v != pcm.inter {
        return Err("decoded samples differ".into());
    }
    Ok(())
}

pub fn run_c15(ctx: &mut Ctx) -> R {
    let ch = ctx.ch.clone();
    match ch.draw("c15.part", 6) {
        0 | 1 => c15_grid(ctx, &ch),
        2 => c15_options(ctx, &ch),
        3 => c15_stream_writer(ctx, &ch),
        _ => c15_length_contract(ctx, &ch),
    }
}

fn guarded<T>(ctx: &mut Ctx, what: &str, f: impl FnOnce() -> T) -> Result<T, Violation> {
    match catch_unwind(AssertUnwindSafe(f)) {
        Ok(v) => Ok(v),
        Err(_) => {
            let (loc, msg) = take_panic().unwrap_or_default();
            let v = crate::classify_panic(&loc, &msg);
            let _ = ctx;
            Err(Violation {
                class: v.class,
                msg: format!("{what}: {msg}"),
            })
        }
    }
}

fn c15_grid(ctx: &mut Ctx, ch: &Choices) -> R {
    let kind = ch.draw("c15.ctor", 3) as usize;
    let ri = ch.draw("c15.rate", RATES15.len() as u64) as usize;
    let rate = RATES15[ri];
    // the seek-table policy takes part in construction when a total is declared (placeholder points)
    let seekopt = ch.draw("c15.grid.seek", 4);
    let grid_opts = move || {
        let o = Options::default().padding(0).unwrap();
        match seekopt {
            0 => o.no_seektable(),
            1 => o,
            2 => o.seektable_seconds(255),
            _ => o.seektable_frames(1),
        }
    };
    ctx.describe(|| format!("constructor grid: ctor={} rate={rate} seektable option {seekopt} x bits 0..=34 x channels 0..=9 x 8 declared totals", ["sample", "byte", "channel"][kind]));
    ctx.api(40, (kind * 16 + ri) as u64);
    probe("c15_grid_slice");
    // once per slice: declared totals around the number of points a seek table can hold, with a point
    // requested for every frame (the placeholder table is sized from the declared total)
    if (1..1 << 20).contains(&rate) && ch.draw("c15.grid.cap", 40) == 0 {
        for frames in [932_066u64, 932_067, 932_068, 1_000_000] {
            for (bs, chn, bps) in [(4096u16, 1u8, 16u32), (16, 2, 8)] {
                let unit: u64 = match kind {
                    0 => chn as u64,
                    1 => chn as u64 * bps.div_ceil(8) as u64,
                    _ => 1,
                };
                let total = frames * bs as u64 * unit;
                let what = format!("{}::new(rate={rate}, bits={bps}, channels={chn}, total={total} = {frames} blocks of {bs}), seektable_frames(1)", ["FlacSampleWriter", "FlacByteWriter", "FlacChannelWriter"][kind]);
                let r = guarded(ctx, &what, || ctor(kind, Options::default().block_size(bs).unwrap().seektable_frames(1), rate, bps, chn, Some(total)).map(|v| v.len()))?;
                probe("c15_ctor_declared_total_at_seektable_capacity");
                if let Err(e) = r {
                    return viol("length-contract", format!("{what}: documented-legal values refused: {e}"));
                }
            }
        }
    }
    crate::monitor::note(format!("grid slice ctor={kind} rate={rate}"));
    for bps in 0..=34u32 {
        for chn in 0..=9u8 {
            let unit: u64 = match kind {
                0 => chn as u64,
                1 => chn as u64 * bps.div_ceil(8) as u64,
                _ => 1,
            };
            let totals: [Option<u64>; 8] = [
                None,
                Some(0),
                Some(unit.max(1)),
                Some(unit.max(1) * 37),
                Some(unit.max(1) * 3 + 1),
                Some(((1u64 << 36) - 1) * unit.max(1)),
                Some((1u64 << 36) * unit.max(1)),
                Some(u64::MAX),
            ];
            for (ti, total) in totals.iter().enumerate() {
                let what = format!("{}::new(rate={rate}, bits={bps}, channels={chn}, total={total:?})", ["FlacSampleWriter", "FlacByteWriter", "FlacChannelWriter"][kind]);
                // the huge totals would make a seek-table reservation of a million points per call: keep
                // those on the no-seek-table option
                let r = guarded(ctx, &what, || ctor(kind, if ti <= 4 { grid_opts() } else { Options::default().padding(0).unwrap().no_seektable() }, rate, bps, chn, *total))?;
                ctx.eval_fp(mix(mix(bps as u64, chn as u64), mix(ti as u64, r.is_ok() as u64) ^ ((kind * 16 + ri) as u64) << 20), true);
                match &r {
                    Ok(_) => probe("c15_ctor_accepted"),
                    Err(_) => probe("c15_ctor_rejected"),
                }
                if documented_ok(rate, bps, chn) && matches!(ti, 0 | 2 | 3) && r.is_err() {
                    return viol("length-contract", format!("{what}: documented-legal values refused: {}", r.unwrap_err()));
                }
                if !documented_ok(rate, bps, chn) && r.is_ok() {
                    return viol("length-contract", format!("{what}: out-of-range parameters accepted"));
                }
            }
            // every accepted combination must then work
            if documented_ok(rate, bps, chn) {
                let cfg = Cfg {
                    channels: chn,
                    bps,
                    rate,
                    block: 16,
                    lpc: Some(4),
                    part: 3,
                    mid_side: true,
                    fast: false,
                    win: Win::Tukey(0.5),
                    declare_total: (bps + chn as u32) % 2 == 0,
                    seek: SeekPolicy::Frames(1),
                    padding: None,
                    offset: 0,
                    tags: 0,
                };
                let what = format!("round trip rate={rate} bits={bps} channels={chn}");
                let r = guarded(ctx, &what, || roundtrip_small(&cfg, 40, mix(bps as u64, chn as u64)))?;
                if let Err(e) = r {
                    return viol("length-contract", format!("{what}: accepted parameters do not yield a working writer: {e}"));
                }
                probe("c15_accepted_roundtrip");
            }
        }
    }
    Ok(())
}

fn c15_options(ctx: &mut Ctx, ch: &Choices) -> R {
    // setters at 0, interior, max, max+1
    let bs = *ch.pick("c15.bs", &[16u16, 15, 0, 17, 4096, 65535, 1000, 255, 256, 257, 258, 192, 576, 1152, 2304, 4608, 512, 1024, 2048, 8192, 16384, 32768, 193, 4609]);
    let lpc = *ch.pick("c15.lpc", &[Some(32u8), None, Some(0), Some(1), Some(31), Some(33), Some(255), Some(12)]);
    let part = *ch.pick("c15.part", &[15u32, 0, 6, 7, 16, u32::MAX, 8]);
    let pad = *ch.pick("c15.pad", &[(1u32 << 24) - 1, 0, 1, 1 << 24, u32::MAX, 4096]);
    ctx.describe(|| format!("option setters: block_size({bs}) max_lpc_order({lpc:?}) max_partition_order({part}) padding({pad})"));
    ctx.api(41, 0);
    let r = guarded(ctx, "option setters", || {
        let o = Options::default();
        let a = o.clone().block_size(bs).map(|_| ()).map_err(|e| format!("{e:?}"));
        let b = o.clone().max_lpc_order(lpc).map(|_| ()).map_err(|e| format!("{e:?}"));
        let c = o.clone().max_partition_order(part).map(|_| ()).map_err(|e| format!("{e:?}"));
        let d = o.clone().padding(pad).map(|_| ()).map_err(|e| format!("{e:?}"));
        (a, b, c, d)
    })?;
    let want = (bs >= 16, lpc.map(|l| (1..=32).contains(&l)).unwrap_or(true), part <= 15, pad < (1 << 24));
    let got = (r.0.is_ok(), r.1.is_ok(), r.2.is_ok(), r.3.is_ok());
    if want != got {
        return viol(
            "length-contract",
            format!("setter acceptance (block,lpc,partition,padding) = {got:?}, documented ranges say {want:?}"),
        );
    }
    ctx.eval(0, true);
    if want.0 && want.1 && want.2 {
        // the accepted combination must work; block size larger than the LPC order so that the LPC path runs
        let chn = 1 + ch.draw("c15.opt.ch", 2) as u8;
        let bps = *ch.pick("c15.opt.bps", &[16u32, 8, 24, 32, 4]);
        let cfg = Cfg {
            channels: chn,
            bps,
            rate: 44100,
            block: bs,
            lpc,
            part,
            mid_side: true,
            fast: ch.draw("c15.opt.fast", 2) == 1,
            win: Win::Tukey(0.5),
            declare_total: false,
            seek: SeekPolicy::Off,
            padding: if want.3 && pad > 0 && pad < 100_000 { Some(pad) } else { None },
            offset: 0,
            tags: 0,
        };
        let frames = if bs > 8192 { bs as usize + 7 } else { bs as usize * 2 + 5 };
        if lpc == Some(32) {
            probe("c15_lpc_order_32");
        }
        if part == 15 {
            probe("c15_partition_order_15");
        }
        if bs == 65535 {
            probe("c15_block_65535");
        }
        let what = format!("round trip with block_size={bs} max_lpc_order={lpc:?} max_partition_order={part} ch={chn} bits={bps}");
        let r = guarded(ctx, &what, || roundtrip_small(&cfg, frames, mix(bs as u64, part as u64)))?;
        if let Err(e) = r {
            return viol("length-contract", format!("{what}: documented option values do not yield a working writer: {e}"));
        }
    }
    Ok(())
}

fn c15_stream_writer(ctx: &mut Ctx, ch: &Choices) -> R {
    let rate = *ch.pick("c15.sw.rate", &[44100u32, 0, 1, 12345, 65535, 655350, 655351, (1 << 20) - 1, 1 << 20, u32::MAX, 96000, 300000]);
    let chn = ch.draw("c15.sw.ch", 11) as u8;
    let bps = *ch.pick("c15.sw.bps", &[16u32, 0, 1, 4, 8, 12, 13, 20, 24, 32, 33, 17]);
    let len = *ch.pick("c15.sw.len", &[10usize, 0, 1, 15, 16, 65535, 65536, 70000, 100, 128, 256, 1152, 4096, 192, 65537, 131071, 255, 257, 258]);
    let opts = match ch.draw("c15.sw.opts", 5) {
        0 => Options::default(),
        1 => Options::fast(),
        2 => Options::best().max_lpc_order(Some(32)).unwrap(),
        // every documented option value must work in this front-end too
        3 => Options::default().max_partition_order(ch.draw("c15.sw.part", 16) as u32).unwrap(),
        _ => Options::default()
            .max_partition_order(*ch.pick("c15.sw.part2", &[15u32, 7, 8, 6]))
            .unwrap()
            .max_lpc_order(*ch.pick("c15.sw.lpc", &[None, Some(1u8), Some(32), Some(12)]))
            .unwrap()
            .mid_side(ch.draw("c15.sw.ms", 2) == 0)
            .fast_channel_correlation(ch.draw("c15.sw.fast", 2) == 0),
    };
    let n = len * chn.max(1) as usize + if ch.draw("c15.sw.ragged", 5) == 4 { 1 } else { 0 };
    // not too regular: real residuals, so that partitioning has something to choose
    let samples: Vec<i32> = (0..n).map(|i| if bps >= 4 && bps <= 32 { ((i as i32).wrapping_mul(2654435) >> 7) % 7 - 3 } else if bps >= 2 { (i as i32 % 3) - 1 } else { 0 }).collect();
    let what = format!("FlacStreamWriter::write(rate={rate}, channels={chn}, bits={bps}, {n} samples)");
    ctx.describe(|| what.clone());
    ctx.api(42, 0);
    if len == 0 {
        probe("c15_stream_writer_empty_frame");
    }
    let r = guarded(ctx, &what, || {
        let mut out = Vec::new();
        let mut w = FlacStreamWriter::new(&mut out, opts);
        let r = w.write(rate, chn, bps, &samples).map_err(|e| format!("{e:?}"));
        (r, out)
    })?;
    ctx.eval(r.0.is_ok() as u64, true);
    // three-valued: values strictly inside a header coding must be accepted, values no header
    // coding can express must be refused; the boundary values 65535 Hz / 255 kHz / 655350 Hz
    // (which the crate conservatively treats as non-subset) and 0 Hz may go either way
    let table = matches!(rate, 88200 | 176400 | 192000 | 8000 | 16000 | 22050 | 24000 | 32000 | 44100 | 48000 | 96000);
    let rate_must_accept = table || (rate > 0 && (rate < 65535 || (rate % 1000 == 0 && rate / 1000 < 255) || (rate % 10 == 0 && rate / 10 < 65535)));
    let rate_must_reject = !table && rate > 65535 && !(rate % 1000 == 0 && rate / 1000 <= 255) && !(rate % 10 == 0 && rate / 10 <= 65535);
    let subset_bps = matches!(bps, 8 | 12 | 16 | 20 | 24 | 32);
    // the effective PCM frame count (the ragged variant adds one sample, which for mono is one more whole frame)
    let shape_ok = (1..=8).contains(&chn) && subset_bps && n % chn as usize == 0 && n / chn as usize >= 1 && n / chn as usize <= 65535;
    let legal = shape_ok && rate_must_accept;
    let illegal = !shape_ok || rate_must_reject;
    if !legal && !illegal {
        probe("c15_stream_writer_boundary_rate");
        return Ok(());
    }
    match (&r.0, legal) {
        (Ok(()), false) => {
            // accepted something that a frame header cannot describe: must at least be decodable from its own header
            let (frames, end) = crate::refflac::parse_raw_frames(&r.1);
            if frames.len() != 1 || end != crate::refflac::StreamEnd::Clean {
                return viol("length-contract", format!("{what}: accepted, but the emitted bytes are not one self-describing frame ({end:?})"));
            }
            Ok(())
        }
        (Err(e), true) => viol("length-contract", format!("{what}: legal subset parameters refused: {e}")),
        _ => Ok(()),
    }
}

fn c15_length_contract(ctx: &mut Ctx, ch: &Choices) -> R {
    let mut cfg = draw_cfg(ch, true);
    cfg.block = 16 + ch.draw("c15.lc.block", 32) as u16;
    cfg.offset = 0;
    let kind = draw_wkind(ch);
    let n = draw_len(ch, &cfg, 3);
    let delta: i64 = *ch.pick("c15.lc.delta", &[0i64, 1, -1, 16, -16, 2, -2]);
    let delta = match ch.draw("c15.lc.dm", 3) {
        0 => delta,
        1 => delta.signum() * cfg.block as i64,
        _ => delta.signum() * (1 + ch.draw("c15.lc.dk", 2 * cfg.block as u64) as i64),
    };
    let declared_frames = n as i64;
    let delivered = (declared_frames + delta).max(1) as usize;
    let delta = delivered as i64 - declared_frames;
    let declare = ch.draw("c15.lc.declare", 4) != 0;
    let pcm = draw_pcm(ch, cfg.channels, cfg.bps, delivered);
    let chunks = draw_write_chunks(ch, kind, &pcm);
    cfg.declare_total = declare;
    let declared = declare.then(|| {
        let p = Pcm {
            channels: pcm.channels,
            bps: pcm.bps,
            frames: n,
            inter: Vec::new(),
        };
        total_for(kind, &p)
    });
    ctx.describe(|| {
        format!(
            "length contract: writer={kind:?} declared={:?} PCM frames, delivered={delivered} (delta {delta}) chunks={} {}",
            declare.then_some(n),
            short_vec(&chunks, 8),
            cfg.describe()
        )
    });
    ctx.api(43, (delta.signum() + 1) as u64);
    let file = ctx.disk.create(Vec::new());
    let f = ctx.disk.open(file, Benign::none());
    let r = encode(f, &cfg, &pcm, kind, &chunks, declared, EndMode::Finalize, &[], &mut || {});
    let nontrivial = true;
    ctx.eval(0, nontrivial);
    match (declare, delta.signum()) {
        (true, 1) => {
            probe("c15_overfill");
            match r {
                Ok(()) => viol("length-contract", format!("declared {n} PCM frames, wrote {delivered}: no error from write or finalize")),
                Err(e) => {
                    probe(if e.stage == "write" { "c15_overfill_detected_at_write" } else { "c15_overfill_detected_at_finalize" });
                    Ok(())
                }
            }
        }
        (true, -1) => {
            probe("c15_underfill");
            match r {
                Ok(()) => viol("length-contract", format!("declared {n} PCM frames, wrote only {delivered}: finalize returned Ok")),
                Err(e) if e.stage == "finalize" => Ok(()),
                Err(e) => viol("length-contract", format!("under-delivery reported at {} instead of finalize: {}", e.stage, e.err)),
            }
        }
        _ => {
            probe("c15_exact_or_undeclared");
            if let Err(e) = r {
                return viol("length-contract", format!("exact/undeclared delivery of {delivered} PCM frames failed at {}: {}", e.stage, e.err));
            }
            let bytes = ctx.disk.data(file);
            match flac_codec::metadata::BlockList::read(Cursor::new(&bytes)) {
                Ok(bl) => {
                    let t = bl.streaminfo().total_samples.map(|t| t.get());
                    if t != Some(delivered as u64) {
                        return viol("length-contract", format!("final count recorded as {t:?}, delivered {delivered}"));
                    }
                    Ok(())
                }
                Err(e) => viol("length-contract", format!("finished file unreadable: {e:?}")),
            }
        }
    }
}
