//! Writer and reader front-ends driven through drawn call histories.

use crate::genr::{Cfg, Pcm, draw_chunks, samples_to_bytes};
use crate::monitor::probe;
use crate::rng::Choices;
use flac_codec::byteorder::{BigEndian, LittleEndian};
use flac_codec::decode::{FlacByteReader, FlacChannelReader, FlacSampleReader, Metadata};
use flac_codec::encode::{FlacByteWriter, FlacChannelWriter, FlacSampleWriter};
use std::io::{BufRead, Read, Seek, Write};
use std::mem::ManuallyDrop;

#[derive(Clone, Copy, Debug, PartialEq, Eq)]
pub enum WKind {
    Sample,
    ByteLE,
    ByteBE,
    Channel,
}
pub const WKINDS: [WKind; 4] = [WKind::Sample, WKind::ByteLE, WKind::ByteBE, WKind::Channel];

#[derive(Clone, Copy, Debug, PartialEq, Eq)]
pub enum EndMode {
    Finalize,
    /// leak the writer, as a killed process would
    Forget,
    /// let Drop finalize
    Drop,
}

#[derive(Debug)]
pub struct EncErr {
    pub stage: &'static str,
    pub err: String,
    pub io: bool,
}

fn ee(stage: &'static str, e: flac_codec::Error) -> EncErr {
    EncErr {
        stage,
        io: matches!(e, flac_codec::Error::Io(_)),
        err: format!("{e:?}"),
    }
}
fn eio(stage: &'static str, e: std::io::Error) -> EncErr {
    EncErr {
        stage,
        io: true,
        err: format!("{e:?}"),
    }
}

pub fn total_for(kind: WKind, pcm: &Pcm) -> u64 {
    match kind {
        WKind::Sample => (pcm.frames * pcm.channels) as u64,
        WKind::ByteLE | WKind::ByteBE => (pcm.frames * pcm.channels * pcm.bytes_per_sample()) as u64,
        WKind::Channel => pcm.frames as u64,
    }
}

thread_local! {
    /// set when that finalize() reported success (read and reset by the C13 sweep)
    pub static FINALIZE_OK_AFTER_ERROR: std::cell::Cell<bool> = const { std::cell::Cell::new(false) };
}

thread_local! {
    /// when set, a failed write call is followed by an explicit finalize() whose verdict `encode` returns
    pub static FINALIZE_AFTER_ERROR: std::cell::Cell<bool> = const { std::cell::Cell::new(false) };
}

thread_local! {
    /// when set, `encode` calls `io::Write::flush` on a byte writer after every other write call
    pub static FLUSH_BETWEEN: std::cell::Cell<bool> = const { std::cell::Cell::new(false) };
}

/// io::Write::write_all semantics, but a caller-visible retry loop so that byte writers are
/// driven through `write` as well as `write_all`
fn write_loop<W: Write>(w: &mut W, mut b: &[u8], use_write_all: bool) -> std::io::Result<()> {
    if use_write_all {
        return w.write_all(b);
    }
    while !b.is_empty() {
        match w.write(b) {
            Ok(0) => return Err(std::io::Error::new(std::io::ErrorKind::WriteZero, "write zero")),
            Ok(n) => b = &b[n..],
            Err(e) if e.kind() == std::io::ErrorKind::Interrupted => {}
            Err(e) => return Err(e),
        }
    }
    Ok(())
}

/// on a failed write the writer is dropped normally (its Drop runs, as it would for a caller
/// that gives up), but a *panic* inside write leaks it instead of running Drop while unwinding
macro_rules! wtry {
    ($w:ident, $e:expr, $conv:ident) => {
        if let Err(e) = $e {
            if FINALIZE_AFTER_ERROR.with(|f| f.get()) {
                // a caller that carries on to finalize() after a failed write: finalize is then the last
                // word, and if it says Ok the output had better be complete
                crate::monitor::probe("finalize_called_after_failed_write");
                return match ManuallyDrop::into_inner($w).finalize() {
                    Ok(()) => {
                        FINALIZE_OK_AFTER_ERROR.with(|f| f.set(true));
                        Ok(())
                    }
                    Err(_) => Err($conv("write", e)),
                };
            }
            drop(ManuallyDrop::into_inner($w));
            return Err($conv("write", e));
        }
    };
}

/// Encodes `pcm` through the chosen front-end with the given chunking (units: bytes for byte
/// writers, interleaved samples for the sample writer, PCM frames for the channel writer).
/// `extra_tail`: units appended after the PCM that do not form a whole PCM frame (C08).
pub fn encode<S: Write + Seek>(
    sink: S,
    cfg: &Cfg,
    pcm: &Pcm,
    kind: WKind,
    chunks: &[usize],
    declared: Option<u64>,
    end: EndMode,
    tail: &[i32],
    before_end: &mut dyn FnMut(),
) -> Result<(), EncErr> {
    let opts = cfg.options();
    match kind {
        WKind::Sample => {
            let mut w = ManuallyDrop::new(
                FlacSampleWriter::new(sink, opts, cfg.rate, cfg.bps, cfg.channels, declared).map_err(|e| ee("new", e))?,
            );
            let mut pos = 0;
            let mut all = pcm.inter.clone();
            all.extend_from_slice(tail);
            for &c in chunks {
                let e = (pos + c).min(all.len());
                wtry!(w, w.write(&all[pos..e]), ee);
                pos = e;
            }
            if pos < all.len() {
                wtry!(w, w.write(&all[pos..]), ee);
            }
            before_end();
            match end {
                EndMode::Finalize => ManuallyDrop::into_inner(w).finalize().map_err(|e| ee("finalize", e)),
                EndMode::Forget => Ok(()),
                EndMode::Drop => {
                    drop(ManuallyDrop::into_inner(w));
                    Ok(())
                }
            }
        }
        WKind::ByteLE | WKind::ByteBE => {
            let big = kind == WKind::ByteBE;
            let bytes_ps = pcm.bytes_per_sample();
            let mut all = pcm.to_bytes(big);
            all.extend(samples_to_bytes(tail, 1, false)); // tail given as raw bytes (low byte of each)
            let _ = bytes_ps;
            macro_rules! run {
                ($w:expr) => {{
                    let mut w = ManuallyDrop::new($w.map_err(|e| ee("new", e))?);
                    let mut pos = 0;
                    let mut i = 0;
                    for &c in chunks {
                        let e = (pos + c).min(all.len());
                        wtry!(w, write_loop(&mut *w, &all[pos..e], i % 2 == 0), eio);
                        pos = e;
                        i += 1;
                        // io::Write::flush between calls: it may push bytes to the sink, it must not
                        // change what the stream is
                        if FLUSH_BETWEEN.with(|f| f.get()) && i % 2 == 1 {
                            crate::monitor::probe("byte_writer_flushed_between_writes");
                            wtry!(w, Write::flush(&mut *w), eio);
                        }
                    }
                    if pos < all.len() {
                        wtry!(w, write_loop(&mut *w, &all[pos..], true), eio);
                    }
                    before_end();
                    match end {
                        EndMode::Finalize => ManuallyDrop::into_inner(w).finalize().map_err(|e| ee("finalize", e)),
                        EndMode::Forget => Ok(()),
                        EndMode::Drop => {
                            drop(ManuallyDrop::into_inner(w));
                            Ok(())
                        }
                    }
                }};
            }
            if big {
                run!(FlacByteWriter::endian(
                    sink,
                    BigEndian,
                    opts,
                    cfg.rate,
                    cfg.bps,
                    cfg.channels,
                    declared
                ))
            } else {
                run!(FlacByteWriter::endian(
                    sink,
                    LittleEndian,
                    opts,
                    cfg.rate,
                    cfg.bps,
                    cfg.channels,
                    declared
                ))
            }
        }
        WKind::Channel => {
            let mut w = ManuallyDrop::new(
                FlacChannelWriter::new(sink, opts, cfg.rate, cfg.bps, cfg.channels, declared).map_err(|e| ee("new", e))?,
            );
            let chans = pcm.chans();
            let mut pos = 0;
            for &c in chunks {
                let e = (pos + c).min(pcm.frames);
                let part: Vec<&[i32]> = chans.iter().map(|ch| &ch[pos..e]).collect();
                wtry!(w, w.write(&part), ee);
                pos = e;
            }
            if pos < pcm.frames {
                let part: Vec<&[i32]> = chans.iter().map(|ch| &ch[pos..]).collect();
                wtry!(w, w.write(&part), ee);
            }
            before_end();
            match end {
                EndMode::Finalize => ManuallyDrop::into_inner(w).finalize().map_err(|e| ee("finalize", e)),
                EndMode::Forget => Ok(()),
                EndMode::Drop => {
                    drop(ManuallyDrop::into_inner(w));
                    Ok(())
                }
            }
        }
    }
}

pub fn chunk_units(kind: WKind, pcm: &Pcm) -> (usize, usize) {
    // (total units, units per block-ish hint)
    match kind {
        WKind::Sample => (pcm.frames * pcm.channels, pcm.channels * 16),
        WKind::ByteLE | WKind::ByteBE => (
            pcm.frames * pcm.channels * pcm.bytes_per_sample(),
            pcm.channels * pcm.bytes_per_sample() * 16,
        ),
        WKind::Channel => (pcm.frames, 16),
    }
}

pub fn draw_wkind(ch: &Choices) -> WKind {
    *ch.pick("w.kind", &WKINDS)
}

pub fn draw_write_chunks(ch: &Choices, kind: WKind, pcm: &Pcm) -> Vec<usize> {
    let (total, hint) = chunk_units(kind, pcm);
    let c = draw_chunks(ch, total, hint);
    // probe: a call that ends inside a PCM frame
    let unit = match kind {
        WKind::Sample => pcm.channels,
        WKind::ByteLE | WKind::ByteBE => pcm.channels * pcm.bytes_per_sample(),
        WKind::Channel => 1,
    };
    let mut acc = 0;
    for &n in &c {
        acc += n;
        if unit > 1 && acc % unit != 0 && acc < total {
            probe("write_ended_inside_pcm_frame");
            break;
        }
    }
    c
}

// ------------------------------------------------------------------------------------------
// readers

#[derive(Clone, Copy, Debug, PartialEq, Eq)]
pub enum RKind {
    ByteLERead,
    ByteBERead,
    ByteLEFill,
    ByteBEFill,
    ByteLEToEnd,
    SampleRead,
    SampleFill,
    SampleToEnd,
    SampleIter,
    ChannelFill,
}
pub const RKINDS: [RKind; 10] = [
    RKind::SampleRead,
    RKind::ByteLERead,
    RKind::ByteBERead,
    RKind::ByteLEFill,
    RKind::ByteBEFill,
    RKind::ByteLEToEnd,
    RKind::SampleFill,
    RKind::SampleToEnd,
    RKind::SampleIter,
    RKind::ChannelFill,
];

#[derive(Debug, Clone, PartialEq, Eq)]
pub struct StreamMeta {
    pub channels: u8,
    pub rate: u32,
    pub bps: u32,
    pub total: Option<u64>,
    pub md5: Option<[u8; 16]>,
}

#[derive(Debug)]
pub struct Decoded {
    pub meta: Option<StreamMeta>,
    /// interleaved samples delivered before the end / first error
    pub samples: Vec<i32>,
    /// None = clean end of stream; Some(e) = error text
    pub err: Option<String>,
    pub open_err: bool,
    /// number of delivery calls that returned data
    pub calls: usize,
}

fn bytes_to_samples(b: &[u8], bytes: usize, big: bool) -> Vec<i32> {
    let mut o = Vec::with_capacity(b.len() / bytes.max(1));
    for c in b.chunks_exact(bytes) {
        let mut le = [0u8; 4];
        if big {
            for i in 0..bytes {
                le[i] = c[bytes - 1 - i];
            }
        } else {
            le[..bytes].copy_from_slice(c);
        }
        let shift = 32 - 8 * bytes as u32;
        o.push((i32::from_le_bytes(le) << shift) >> shift);
    }
    o
}

fn meta_of<M: Metadata>(m: &M) -> StreamMeta {
    StreamMeta {
        channels: m.channel_count(),
        rate: m.sample_rate(),
        bps: m.bits_per_sample(),
        total: m.total_samples(),
        md5: m.md5().copied(),
    }
}

fn draw_read_size(ch: &Choices, unit: usize, frame_units: usize) -> usize {
    match ch.draw("r.n", 8) {
        0 => frame_units.max(1) * 4 + 17,
        1 => 1,
        2 => 3,
        3 => frame_units.saturating_sub(1).max(1),
        4 => frame_units.max(1),
        5 => frame_units + 1,
        6 => unit.max(1),
        _ => 1 + ch.draw("r.n.any", (frame_units as u64 * 2).max(8)) as usize,
    }
}

/// Fully decodes `src` through reader front-end `kind` using a drawn call pattern.
/// `frame_hint` = PCM frames per block (used to bias read sizes around frame boundaries).
pub fn decode_all<S: Read>(src: S, kind: RKind, ch: &Choices, frame_hint: usize) -> Decoded {
    let mut out = Decoded {
        meta: None,
        samples: Vec::new(),
        err: None,
        open_err: false,
        calls: 0,
    };
    match kind {
        RKind::ByteLERead | RKind::ByteBERead | RKind::ByteLEFill | RKind::ByteBEFill | RKind::ByteLEToEnd => {
            let big = matches!(kind, RKind::ByteBERead | RKind::ByteBEFill);
            macro_rules! go {
                ($r:expr) => {{
                    let mut r = match $r {
                        Ok(r) => r,
                        Err(e) => {
                            out.open_err = true;
                            out.err = Some(format!("{e:?}"));
                            return out;
                        }
                    };
                    let meta = meta_of(&r);
                    let bytes = (meta.bps as usize).div_ceil(8);
                    let unit = bytes * meta.channels as usize;
                    let frame_units = unit * frame_hint;
                    let mut got: Vec<u8> = Vec::new();
                    match kind {
                        RKind::ByteLEToEnd => {
                            if let Err(e) = r.read_to_end(&mut got) {
                                out.err = Some(format!("{e:?}"));
                            }
                            out.calls = 1;
                        }
                        RKind::ByteLERead | RKind::ByteBERead => {
                            let mut buf = vec![0u8; 0];
                            loop {
                                let n = draw_read_size(ch, unit, frame_units);
                                buf.resize(n, 0);
                                match r.read(&mut buf) {
                                    Ok(0) => break,
                                    Ok(k) => {
                                        out.calls += 1;
                                        got.extend_from_slice(&buf[..k]);
                                    }
                                    Err(e) => {
                                        out.err = Some(format!("{e:?}"));
                                        break;
                                    }
                                }
                            }
                        }
                        _ => loop {
                            match r.fill_buf() {
                                Ok([]) => break,
                                Ok(b) => {
                                    out.calls += 1;
                                    let k = match ch.draw("r.consume", 4) {
                                        0 => b.len(),
                                        1 => 1,
                                        2 => (b.len() / 2).max(1),
                                        _ => 1 + ch.draw("r.consume.k", b.len() as u64) as usize,
                                    };
                                    got.extend_from_slice(&b[..k]);
                                    r.consume(k);
                                }
                                Err(e) => {
                                    out.err = Some(format!("{e:?}"));
                                    break;
                                }
                            }
                        },
                    }
                    out.samples = bytes_to_samples(&got, bytes, big);
                    if got.len() % bytes != 0 {
                        out.err = Some(format!(
                            "HARNESS-VISIBLE: byte reader delivered {} bytes, not a multiple of {bytes}",
                            got.len()
                        ));
                    }
                    out.meta = Some(meta);
                }};
            }
            if big {
                go!(FlacByteReader::endian(src, BigEndian))
            } else {
                go!(FlacByteReader::endian(src, LittleEndian))
            }
        }
        RKind::SampleRead | RKind::SampleFill | RKind::SampleToEnd | RKind::SampleIter => {
            let mut r = match FlacSampleReader::new(src) {
                Ok(r) => r,
                Err(e) => {
                    out.open_err = true;
                    out.err = Some(format!("{e:?}"));
                    return out;
                }
            };
            let meta = meta_of(&r);
            let unit = meta.channels as usize;
            let frame_units = unit * frame_hint;
            match kind {
                RKind::SampleToEnd => {
                    if let Err(e) = r.read_to_end(&mut out.samples) {
                        out.err = Some(format!("{e:?}"));
                    }
                    out.calls = 1;
                }
                RKind::SampleRead => {
                    let mut buf = vec![0i32; 0];
                    loop {
                        let n = draw_read_size(ch, unit, frame_units);
                        buf.resize(n, 0);
                        match r.read(&mut buf) {
                            Ok(0) => break,
                            Ok(k) => {
                                out.calls += 1;
                                out.samples.extend_from_slice(&buf[..k]);
                            }
                            Err(e) => {
                                out.err = Some(format!("{e:?}"));
                                break;
                            }
                        }
                    }
                }
                RKind::SampleFill => loop {
                    match r.fill_buf() {
                        Ok([]) => break,
                        Ok(b) => {
                            out.calls += 1;
                            let k = match ch.draw("r.consume", 4) {
                                0 => b.len(),
                                1 => 1,
                                2 => (b.len() / 2).max(1),
                                _ => 1 + ch.draw("r.consume.k", b.len() as u64) as usize,
                            };
                            out.samples.extend_from_slice(&b[..k]);
                            r.consume(k);
                        }
                        Err(e) => {
                            out.err = Some(format!("{e:?}"));
                            break;
                        }
                    }
                },
                _ => {
                    for s in r {
                        match s {
                            Ok(s) => out.samples.push(s),
                            Err(e) => {
                                out.err = Some(format!("{e:?}"));
                                break;
                            }
                        }
                    }
                    out.calls = 1;
                }
            }
            out.meta = Some(meta);
        }
        RKind::ChannelFill => {
            let mut r = match FlacChannelReader::new(src) {
                Ok(r) => r,
                Err(e) => {
                    out.open_err = true;
                    out.err = Some(format!("{e:?}"));
                    return out;
                }
            };
            let meta = meta_of(&r);
            loop {
                let (k, len) = match r.fill_buf() {
                    Ok(chs) => {
                        let len = chs[0].len();
                        if len == 0 {
                            break;
                        }
                        if chs.len() != meta.channels as usize || chs.iter().any(|c| c.len() != len) {
                            out.err = Some("HARNESS-VISIBLE: channel reader returned ragged channels".into());
                            break;
                        }
                        out.calls += 1;
                        let k = match ch.draw("r.consume", 4) {
                            0 => len,
                            1 => 1,
                            2 => (len / 2).max(1),
                            _ => 1 + ch.draw("r.consume.k", len as u64) as usize,
                        };
                        for f in 0..k {
                            for c in &chs {
                                out.samples.push(c[f]);
                            }
                        }
                        (k, len)
                    }
                    Err(e) => {
                        out.err = Some(format!("{e:?}"));
                        break;
                    }
                };
                let _ = len;
                r.consume(k);
            }
            out.meta = Some(meta);
        }
    }
    out
}

pub fn draw_rkind(ch: &Choices) -> RKind {
    *ch.pick("r.kind", &RKINDS)
}

/// Source wrapper choice: raw SimFile, or behind a BufReader of drawn capacity
pub fn draw_bufcap(ch: &Choices) -> usize {
    *ch.pick("buf.cap", &[0usize, 0, 1, 2, 7, 64, 512, 8192, 65536])
}

pub enum Src<S: Read> {
    Raw(S),
    Buf(std::io::BufReader<S>),
}
impl<S: Read> Read for Src<S> {
    fn read(&mut self, b: &mut [u8]) -> std::io::Result<usize> {
        match self {
            Src::Raw(s) => s.read(b),
            Src::Buf(s) => s.read(b),
        }
    }
}
impl<S: Read + Seek> Seek for Src<S> {
    fn seek(&mut self, p: std::io::SeekFrom) -> std::io::Result<u64> {
        match self {
            Src::Raw(s) => s.seek(p),
            Src::Buf(s) => s.seek(p),
        }
    }
}
pub fn wrap_src<S: Read>(s: S, cap: usize) -> Src<S> {
    if cap == 0 {
        Src::Raw(s)
    } else {
        Src::Buf(std::io::BufReader::with_capacity(cap, s))
    }
}

pub enum Sink<S: Write> {
    Raw(S),
    Buf(std::io::BufWriter<S>),
}
impl<S: Write> Write for Sink<S> {
    fn write(&mut self, b: &[u8]) -> std::io::Result<usize> {
        match self {
            Sink::Raw(s) => s.write(b),
            Sink::Buf(s) => s.write(b),
        }
    }
    fn flush(&mut self) -> std::io::Result<()> {
        match self {
            Sink::Raw(s) => s.flush(),
            Sink::Buf(s) => s.flush(),
        }
    }
}
impl<S: Write + Seek> Seek for Sink<S> {
    fn seek(&mut self, p: std::io::SeekFrom) -> std::io::Result<u64> {
        match self {
            Sink::Raw(s) => s.seek(p),
            Sink::Buf(s) => s.seek(p),
        }
    }
}
pub fn wrap_sink<S: Write>(s: S, cap: usize) -> Sink<S> {
    if cap == 0 {
        Sink::Raw(s)
    } else {
        Sink::Buf(std::io::BufWriter::with_capacity(cap, s))
    }
}
