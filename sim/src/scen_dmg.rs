//! The damage campaign: what storage and transport faults make of valid files.
//! C04 (no panic / hang / over-allocation at any entry point, both profiles),
//! C05 (damage is reported; delivered samples are a whole-frame prefix; MD5 verdict honest),
//! C17 (structural parser and streaming decoder agree on damaged media).

use crate::core::*;
use crate::disk::{Benign, Disk, Segmentation, SimBufRead};
use crate::genr::*;
use crate::monitor::{alloc_mark, alloc_peak_since, probe, take_panic};
use crate::refflac::{self, RefStream};
use crate::rng::{Choices, Xoshiro, mix};
use crate::scen_c17::{expand, interleave32};
use crate::world::*;
use flac_codec::decode::{FlacByteReader, FlacChannelReader, FlacSampleReader, FlacStreamReader};
use flac_codec::encode::FlacSampleWriter;
use std::io::{Cursor, Read, Seek, SeekFrom};
use std::panic::{AssertUnwindSafe, catch_unwind};

pub struct Item {
    pub bytes: Vec<u8>,
    pub channels: usize,
    pub block: usize,
    pub rs: RefStream,
    pub desc: String,
}

/// a small valid file (1-4 frames, blocks 16-64) whose signal steers the encoder into a drawn
/// subframe kind; or one of the libFLAC-made fixtures of the repository
pub fn make_item(ch: &Choices, allow_fixture: bool) -> Option<Item> {
    if allow_fixture && ch.draw("dmg.fixture", 12) == 11 {
        let names = ["all-frames.flac", "comment.flac", "seektable.flac", "picture.flac"];
        let name = *ch.pick("dmg.fixture.name", &names);
        let root = std::env::var("VERIF_REPO").unwrap_or_else(|_| "/repo".into());
        let bytes = std::fs::read(format!("{root}/tests/data/{name}")).ok()?;
        let rs = refflac::parse_stream(&bytes, 0).ok()?;
        probe("dmg_fixture_file");
        return Some(Item {
            channels: rs.meta.si.channels as usize,
            block: rs.meta.si.max_block as usize,
            desc: format!("fixture {name} ({} bytes)", bytes.len()),
            bytes,
            rs,
        });
    }
    let mut cfg = draw_cfg(ch, true);
    cfg.block = 16 + ch.draw("dmg.block", 48) as u16;
    cfg.channels = 1 + *ch.pick("dmg.ch", &[0u8, 1, 0, 1, 2, 7]);
    cfg.padding = *ch.pick("dmg.pad", &[None, Some(4u32), Some(16)]);
    cfg.offset = 0;
    cfg.tags = *ch.pick("dmg.tags", &[0usize, 0, 1]);
    cfg.seek = *ch.pick("dmg.seek", &[SeekPolicy::Off, SeekPolicy::Frames(1), SeekPolicy::Off]);
    cfg.declare_total = true;
    let blocks = 1 + ch.draw("dmg.blocks", 3) as usize;
    let rem = ch.draw("dmg.rem", cfg.block as u64) as usize;
    let frames = (blocks - 1) * cfg.block as usize + rem.max(1);
    let pcm = draw_pcm(ch, cfg.channels, cfg.bps, frames);
    let mut cur = Cursor::new(Vec::new());
    {
        // metadata of every kind (small), so that flips land in picture / comment / application /
        // cue sheet / seek table length and content fields too
        let mut opts = cfg.options();
        if ch.draw("dmg.meta", 3) == 2 {
            for b in crate::genmeta::draw_blocks(ch, 3, false) {
                match b {
                    flac_codec::metadata::Block::VorbisComment(c) => {
                        opts.add_block(c);
                    }
                    flac_codec::metadata::Block::Application(mut a) => {
                        a.data.truncate(24);
                        opts.add_block(a);
                    }
                    flac_codec::metadata::Block::Picture(mut p) => {
                        p.data.truncate(40);
                        opts.add_block(p);
                    }
                    flac_codec::metadata::Block::Cuesheet(c) => {
                        if ch.draw("dmg.meta.cue", 4) == 3 {
                            opts.add_block(c);
                        }
                    }
                    _ => {}
                }
            }
            probe("dmg_corpus_file_with_rich_metadata");
        }
        // the length is declared so that a requested seek table is actually reserved and filled
        let mut w = FlacSampleWriter::new(&mut cur, opts, cfg.rate, cfg.bps, cfg.channels, Some(pcm.inter.len() as u64)).ok()?;
        w.write(&pcm.inter).ok()?;
        w.finalize().ok()?;
    }
    let mut bytes = cur.into_inner();
    if bytes.len() > 1200 {
        return None;
    }
    // a third of the corpus has an unknown total length (STREAMINFO total = 0, as in a stream whose
    // encoder could not seek back): still a valid file, but the decoder has to find the end itself
    let unknown_total = ch.draw("dmg.unknown_total", 3) == 2;
    if unknown_total {
        bytes[21] &= 0xF0;
        for b in &mut bytes[22..26] {
            *b = 0;
        }
        probe("dmg_unknown_total_length");
    }
    let rs = refflac::parse_stream(&bytes, 0).ok()?;
    if !rs.is_valid() || rs.pcm() != pcm.inter {
        return None;
    }
    Some(Item {
        channels: cfg.channels as usize,
        block: cfg.block as usize,
        desc: format!("{} frames={} file={}B audio@{} unknown_total={unknown_total}", cfg.describe(), frames, bytes.len(), rs.meta.audio_start),
        bytes,
        rs,
    })
}

#[derive(Clone, Debug)]
pub enum Dmg {
    Flip(usize),
    Trunc(usize),
    ZeroSector(usize),
    DoubleFlip(usize, usize),
    /// flip inside a frame, then repair CRC-8 (if in the header) and CRC-16
    FlipRepaired(usize),
    /// `len` bytes from `at` read back as all ones (an erased flash page, a stuck bus): every length,
    /// count and offset field it covers takes its largest value
    Ones(usize, usize),
    /// the same with all zeros, at byte granularity (ZeroSector only knows 16-byte sectors)
    Zeros(usize, usize),
}

pub fn apply(item: &Item, d: &Dmg) -> Vec<u8> {
    let mut b = item.bytes.clone();
    match *d {
        Dmg::Flip(bit) => b[bit >> 3] ^= 0x80 >> (bit & 7),
        Dmg::Trunc(n) => b.truncate(n),
        Dmg::ZeroSector(i) => {
            let s = i * 16;
            let e = (s + 16).min(b.len());
            for x in &mut b[s..e] {
                *x = 0;
            }
        }
        Dmg::DoubleFlip(a, c) => {
            b[a >> 3] ^= 0x80 >> (a & 7);
            b[c >> 3] ^= 0x80 >> (c & 7);
        }
        Dmg::Ones(at, len) => {
            let e = (at + len).min(b.len());
            for x in &mut b[at.min(e)..e] {
                *x = 0xFF;
            }
        }
        Dmg::Zeros(at, len) => {
            let e = (at + len).min(b.len());
            for x in &mut b[at.min(e)..e] {
                *x = 0;
            }
        }
        Dmg::FlipRepaired(bit) => {
            b[bit >> 3] ^= 0x80 >> (bit & 7);
            let byte = bit >> 3;
            if let Some(f) = item.rs.frames.iter().find(|f| f.start <= byte && byte < f.end) {
                let in_header = byte < f.start + f.header_len;
                refflac::repair_crcs(&mut b, f.start, f.header_len, f.end, in_header);
            }
        }
    }
    b
}

fn where_probe(item: &Item, bit: usize) {
    let byte = bit >> 3;
    let a = item.rs.meta.audio_start;
    if byte < a {
        probe("flip_in_metadata");
        return;
    }
    if let Some(f) = item.rs.frames.iter().find(|f| f.start <= byte && byte < f.end) {
        let rel = bit - f.start * 8;
        match rel {
            0..=14 => probe("flip_in_sync"),
            15 => probe("flip_in_blocking_bit"),
            16..=19 => probe("flip_in_blocksize_code"),
            20..=23 => probe("flip_in_rate_code"),
            24..=27 => probe("flip_in_channel_code"),
            28..=30 => probe("flip_in_depth_code"),
            31 => probe("flip_in_reserved_bit"),
            _ if byte < f.start + f.header_len - 1 => probe("flip_in_coded_number_or_ext"),
            _ if byte == f.start + f.header_len - 1 => probe("flip_in_crc8"),
            _ if byte >= f.end - 2 => probe("flip_in_crc16"),
            _ => {
                let mut hit = false;
                for s in &f.subs {
                    if bit >= s.header_bit && bit < s.header_bit + 8 {
                        probe("flip_in_subframe_header");
                        hit = true;
                    }
                    if let Some(p) = s.porder_bit {
                        if bit >= p && bit < p + 4 {
                            probe("flip_in_partition_order");
                            hit = true;
                        }
                    }
                    if let Some(p) = s.method_bit {
                        if bit >= p && bit < p + 2 {
                            probe("flip_in_coding_method");
                            hit = true;
                        }
                    }
                    if let Some(p) = s.prec_bit {
                        if bit >= p && bit < p + 9 {
                            probe("flip_in_lpc_precision_or_shift");
                            hit = true;
                        }
                    }
                    if let Some(p) = s.first_param_bit {
                        if bit >= p && bit < p + 5 {
                            probe("flip_in_rice_parameter");
                            hit = true;
                        }
                    }
                }
                if !hit {
                    probe("flip_in_subframe_body");
                }
            }
        }
    }
}

pub const N_ENTRY: usize = 18;

fn drain_sample_frames<R: Read>(mut r: FlacSampleReader<R>) -> (Vec<Vec<i32>>, Option<String>) {
    let mut frames = Vec::new();
    loop {
        match r.fill_buf() {
            Ok([]) => return (frames, None),
            Ok(b) => {
                let n = b.len();
                frames.push(b.to_vec());
                r.consume(n);
            }
            Err(e) => return (frames, Some(format!("{e:?}"))),
        }
        if frames.len() > 100_000 {
            return (frames, Some("too many frames".into()));
        }
    }
}

/// runs decoding / parsing entry point `which` over `bytes`; only the monitors judge
fn entry(which: usize, bytes: &[u8], audio_start: usize, ch: &Choices, d: &Disk, block: usize) {
    let file = d.create(bytes.to_vec());
    let src = || d.open(file, Benign::none());
    match which {
        0..=9 => {
            let _ = decode_all(src(), RKINDS[which], ch, block);
        }
        10 => {
            let _ = flac_codec::decode::verify_reader(src());
        }
        11 => {
            let data = bytes[audio_start.min(bytes.len())..].to_vec();
            let mut r = FlacStreamReader::new(SimBufRead::new(d, data, Segmentation::Fixed(1 + (bytes.len() % 7))));
            let mut errs = 0;
            loop {
                match r.read() {
                    Ok(_) => {}
                    Err(flac_codec::Error::Io(e)) if e.kind() == std::io::ErrorKind::UnexpectedEof => break,
                    Err(_) => {
                        errs += 1;
                        if errs > 5000 {
                            break;
                        }
                    }
                }
            }
        }
        12 => {
            if let Ok(it) = flac_codec::stream::FrameIterator::new(src()) {
                for x in it {
                    match x {
                        Ok((f, _)) => {
                            let _ = expand(&f);
                        }
                        Err(_) => break,
                    }
                }
            }
        }
        13 => {
            let mut c = Cursor::new(&bytes[audio_start.min(bytes.len())..]);
            if let Ok(f) = flac_codec::stream::Frame::read_subset(&mut c) {
                let _ = expand(&f);
                let mut out = Vec::new();
                let _ = f.write_subset(&mut out);
            }
            if let Ok(bl) = flac_codec::metadata::BlockList::read(src()) {
                let mut c = Cursor::new(&bytes[audio_start.min(bytes.len())..]);
                if let Ok(f) = flac_codec::stream::Frame::read(&mut c, bl.streaminfo()) {
                    let _ = expand(&f);
                    let mut out = Vec::new();
                    let _ = f.write(bl.streaminfo(), &mut out);
                }
            }
        }
        14 => {
            let _ = flac_codec::encode::generate_seektable(src(), flac_codec::encode::SeekTableInterval::Frames(1.try_into().unwrap()));
            let _ = flac_codec::encode::generate_seektable(src(), flac_codec::encode::SeekTableInterval::Seconds(1.try_into().unwrap()));
        }
        15 => {
            use flac_codec::metadata::*;
            if let Ok(bl) = BlockList::read(src()) {
                // re-serialise what was accepted
                let mut out = Vec::new();
                let _ = write_blocks(&mut out, bl.blocks());
            }
            for b in read_blocks(src()) {
                if b.is_err() {
                    break;
                }
            }
            let _ = read_block::<_, VorbisComment>(src());
            let _ = read_block::<_, SeekTable>(src());
            let _ = read_block::<_, Picture>(src());
            let _ = read_block::<_, Cuesheet>(src());
            let _ = read_block::<_, Application>(src());
            let _ = read_block::<_, Padding>(src());
            let _ = read_info(src());
        }
        16 => {
            if let Ok(mut r) = FlacSampleReader::new_seekable(src()) {
                let t = ch.draw("dmg.seek.t", 300);
                let _ = r.seek(t);
                let mut v = Vec::new();
                let _ = r.read_to_end(&mut v);
                let _ = r.seek(0);
                let _ = r.read_to_end(&mut v);
            }
            if let Ok(mut r) = FlacChannelReader::new_seekable(src()) {
                let t = ch.draw("dmg.seek.t2", 300);
                let _ = r.seek(t);
                for _ in 0..10_000 {
                    match r.fill_buf() {
                        Ok(c) if !c[0].is_empty() => {
                            let n = c[0].len();
                            r.consume(n);
                        }
                        _ => break,
                    }
                }
            }
        }
        _ => {
            if let Ok(mut r) = FlacByteReader::<_, flac_codec::byteorder::LittleEndian>::new_seekable(src()) {
                let t = ch.draw("dmg.seek.b", 2000);
                let _ = r.seek(SeekFrom::Start(t));
                let mut v = Vec::new();
                let _ = r.read_to_end(&mut v);
                let _ = r.seek(SeekFrom::End(-(ch.draw("dmg.seek.e", 64) as i64)));
                let _ = r.read_to_end(&mut v);
                let _ = r.seek(SeekFrom::Current(-3));
            }
        }
    }
}

pub const ENTRY_NAMES: [&str; N_ENTRY] = [
    "FlacSampleReader::read",
    "FlacByteReader<LE>::read",
    "FlacByteReader<BE>::read",
    "FlacByteReader<LE>::fill_buf",
    "FlacByteReader<BE>::fill_buf",
    "FlacByteReader::read_to_end",
    "FlacSampleReader::fill_buf",
    "FlacSampleReader::read_to_end",
    "FlacSampleIterator",
    "FlacChannelReader::fill_buf",
    "verify_reader",
    "FlacStreamReader::read",
    "FrameIterator+Subframe::decode",
    "Frame::read/read_subset/write",
    "generate_seektable",
    "BlockList::read/read_blocks/read_block",
    "seekable sample+channel readers with seek",
    "seekable byte reader with seek",
];

pub(crate) fn c04_one(ctx: &mut Ctx, item: &Item, bytes: &[u8], dmg: &str, which: usize, pat: &Choices) -> R {
    let d = Disk::new(&ctx.ch, ctx.trace);
    let a = item.rs.meta.audio_start;
    let mark = alloc_mark();
    let r = catch_unwind(AssertUnwindSafe(|| entry(which, bytes, a, pat, &d, item.block)));
    let peak = alloc_peak_since(mark);
    ctx.extra_events += d.seq();
    ctx.eval_fp(mix(d.fp(), which as u64), true);
    let label = format!("{dmg} -> {}", ENTRY_NAMES[which]);
    if r.is_err() {
        let (loc, msg) = take_panic().unwrap_or_default();
        let v = crate::classify_panic(&loc, &msg);
        ctx.adopt_trace(&d, &label);
        return viol(v.class, format!("{label}: {msg}"));
    }
    let bound = 64 * 1024 * 1024 + 16 * bytes.len();
    if peak > bound {
        ctx.adopt_trace(&d, &label);
        return viol("alloc>bound", format!("{label}: peak allocation {peak} bytes for a {}-byte input (bound {bound})", bytes.len()));
    }
    Ok(())
}

/// C05 for one damaged file through one reader
pub(crate) fn c05_one(ctx: &mut Ctx, item: &Item, bytes: &[u8], dmg: &str, plain: bool, rk: RKind, pat: &Choices, rs_alt: &Option<RefStream>) -> R {
    let d = Disk::new(&ctx.ch, ctx.trace);
    let file = d.create(bytes.to_vec());
    let res = catch_unwind(AssertUnwindSafe(|| decode_all(d.open(file, Benign::none()), rk, pat, item.block)));
    ctx.extra_events += d.seq();
    let Ok(r) = res else {
        // a panic pre-empts this oracle; it is C04's finding
        let (loc, msg) = take_panic().unwrap_or_default();
        ctx.skip_foreign(format!("decoder panicked ({loc}: {msg}) — C04's matter"));
        return Ok(());
    };
    ctx.eval_fp(mix(d.fp(), r.samples.len() as u64), true);
    let label = format!("{dmg} -> {rk:?}");
    // (2) delivered data is a whole-frame prefix. Frames whose bytes are untouched must come out
    //     exactly as the original audio. A frame whose bytes were altered but which refflac still
    //     finds checksum-valid (a CRC collision, about 1 in 65536 length-changing corruptions) is
    //     the statement's "happens to form another valid stream" case: only its length is
    //     accounted for, its content is not judged.
    let mut valid_frames: Vec<Vec<i32>> = Vec::new();
    let mut untouched: Vec<bool> = Vec::new();
    if let Some(rs) = rs_alt {
        for f in &rs.frames {
            valid_frames.push(f.interleaved());
            untouched.push(
                item.rs
                    .frames
                    .iter()
                    .any(|o| o.start == f.start && o.end == f.end && f.end <= bytes.len() && item.bytes[o.start..o.end] == bytes[f.start..f.end]),
            );
        }
    }
    let mut acc = 0usize;
    let mut ok_prefix = r.samples.is_empty();
    let mut content_ok = true;
    for (f, same) in valid_frames.iter().zip(&untouched) {
        if acc + f.len() > r.samples.len() {
            break;
        }
        if *same {
            if r.samples[acc..acc + f.len()] != f[..] {
                content_ok = false;
            }
        } else {
            probe("c05_crc_collision_frame_accepted_by_both");
        }
        acc += f.len();
        if acc == r.samples.len() {
            ok_prefix = content_ok;
            break;
        }
    }
    if !ok_prefix && !plain {
        // a checksum-consistent edit: whether the edited frame is valid and what it decodes to is
        // C03's question. Only the audio before the edited frame is judged here.
        let orig = item.rs.pcm();
        let common = orig.iter().zip(&r.samples).take_while(|(a, b)| a == b).count();
        let mut acc = 0usize;
        let mut boundary_before_diff = 0usize;
        for f in &item.rs.frames {
            if acc + f.block_size as usize * item.channels <= common {
                acc += f.block_size as usize * item.channels;
                boundary_before_diff = acc;
            } else {
                break;
            }
        }
        let _ = boundary_before_diff;
        crate::monitor::note("NOTE C03-matter: checksum-consistent edit decoded differently by crate and refflac".into());
        probe("c05_note_edit_decoded_differently_from_refflac");
        return Ok(());
    }
    if !ok_prefix {
        ctx.adopt_trace(&d, &label);
        let orig = item.rs.pcm();
        let is_orig_prefix = orig.len() >= r.samples.len() && orig[..r.samples.len()] == r.samples[..];
        let firstdiff = orig.iter().zip(&r.samples).position(|(a, b)| a != b);
        if let Some(rs) = rs_alt {
            for (i, f) in rs.frames.iter().enumerate() {
                ctx.note(|| format!("refflac frame {i}: {}..{} block={} subs={:?} strict={:?} samples={}", f.start, f.end, f.block_size, f.subs, f.strict, short_vec(&f.interleaved(), 40)));
            }
            ctx.note(|| format!("refflac end: {:?}", rs.end));
        }
        for (i, f) in item.rs.frames.iter().enumerate() {
            ctx.note(|| format!("original frame {i}: {}..{}", f.start, f.end));
        }
        ctx.note(|| format!("first difference at {firstdiff:?}: delivered {} original {}", short_vec(&r.samples[firstdiff.unwrap_or(0)..], 8), short_vec(&orig[firstdiff.unwrap_or(0).min(orig.len())..], 8)));
        return viol(
            "bad-prefix",
            format!(
                "{label}: delivered {} samples before {:?}; not a whole-frame prefix of the stream (frame sizes {:?}; prefix of original audio: {is_orig_prefix})",
                r.samples.len(),
                r.err,
                valid_frames.iter().map(|f| f.len()).collect::<Vec<_>>()
            ),
        );
    }
    // (1) plain damage that is not a valid stream must end in an error
    if plain && r.err.is_none() {
        let valid = rs_alt.as_ref().map(|r| r.is_valid()).unwrap_or(false);
        if valid {
            probe("c05_damaged_stream_still_valid_per_refflac");
        } else {
            ctx.adopt_trace(&d, &label);
            return viol(
                "silent-accept",
                format!(
                    "{label}: decode ran to the end without an error ({} samples) although the altered bytes are not a valid stream ({})",
                    r.samples.len(),
                    rs_alt
                        .as_ref()
                        .map(|r| format!("{:?} {:?}", r.end, r.hard.first()))
                        .unwrap_or("metadata unparseable".into())
                ),
            );
        }
    }
    Ok(())
}

pub(crate) fn c05_verify(ctx: &mut Ctx, bytes: &[u8], dmg: &str, rs_alt: &Option<RefStream>) -> R {
    let res = catch_unwind(AssertUnwindSafe(|| flac_codec::decode::verify_reader(Cursor::new(bytes))));
    let Ok(r) = res else {
        let _ = take_panic();
        ctx.skip_foreign("verify_reader panicked — C04's matter");
        return Ok(());
    };
    ctx.eval_fp(mix(0x77, matches!(r, Ok(flac_codec::decode::Verified::MD5Match)) as u64), true);
    if let Ok(flac_codec::decode::Verified::MD5Match) = r {
        let honest = match rs_alt {
            Some(rs) => {
                let pcm = rs.pcm();
                // the decoder stops at the declared total; so does refflac.
                // A checksum-consistent edit can decode to samples outside the bit depth; how such a
                // sample is serialised to bytes is not defined (the crate's 24-bit serialiser does not
                // simply truncate), so the digest of such a stream is not judged.
                let out_of_range = rs.strict.iter().any(|x| x.contains("does not fit"));
                if out_of_range {
                    probe("c05_md5_not_judged_samples_out_of_range");
                }
                rs.is_valid() && (out_of_range || refflac::pcm_md5(&pcm, rs.meta.si.bps) == rs.meta.si.md5)
            }
            None => false,
        };
        if !honest {
            if let Some(rs) = rs_alt {
                let cr = decode_all(Cursor::new(bytes), RKind::SampleToEnd, &Choices::generate(1), 16);
                ctx.note(|| format!("crate decodes the altered bytes to {:?} (err {:?}); refflac to {:?}; frame subs {:?}; altered bytes {}", cr.samples, cr.err, rs.pcm(), rs.frames.first().map(|f| (&f.subs, f.assignment, f.bps)), hex(bytes)));
                {
                    use std::io::Read;
                    let mut br = flac_codec::decode::FlacByteReader::endian(Cursor::new(bytes), flac_codec::byteorder::LittleEndian).unwrap();
                    let mut out = Vec::new();
                    let e = br.read_to_end(&mut out);
                    ctx.note(|| format!("byte reader output {} ({e:?}); md5 {} ; stored {} ; refflac pcm md5 {}", hex(&out), hex(&md5::compute(&out).0), hex(&rs.meta.si.md5), hex(&refflac::pcm_md5(&rs.pcm(), rs.meta.si.bps))));
                }
                ctx.note(|| format!("refflac on the altered bytes: end={:?} hard={:?} strict={:?} frames={} md5_of_ref_pcm_matches={}", rs.end, rs.hard, rs.strict.first(), rs.frames.len(), refflac::pcm_md5(&rs.pcm(), rs.meta.si.bps) == rs.meta.si.md5));
            }
            return viol(
                "md5-false-match",
                format!("{dmg}: verify_reader reports MD5Match but the altered bytes do not decode (per refflac) to PCM with the stored digest"),
            );
        }
        probe("c05_md5match_confirmed_by_refflac");
    }
    if matches!(r, Ok(flac_codec::decode::Verified::MD5Mismatch)) {
        probe("c05_md5_mismatch_reported");
    }
    Ok(())
}

/// C17 on damaged media: the two readers of one medium must accept the same frames
pub(crate) fn c17_one(ctx: &mut Ctx, item: &Item, bytes: &[u8], dmg: &str) -> R {
    let res = catch_unwind(AssertUnwindSafe(|| {
        let dec = FlacSampleReader::new(Cursor::new(bytes)).map(drain_sample_frames).map_err(|e| format!("{e:?}"));
        let st = flac_codec::stream::FrameIterator::new(Cursor::new(bytes)).map_err(|e| format!("{e:?}")).map(|it| {
            let mut frames: Vec<Result<Vec<i32>, String>> = Vec::new();
            let mut err = None;
            for x in it {
                match x {
                    Ok((f, _)) => frames.push(expand(&f).map(|c| interleave32(&c))),
                    Err(e) => {
                        err = Some(format!("{e:?}"));
                        break;
                    }
                }
                if frames.len() > 100_000 {
                    break;
                }
            }
            (frames, err)
        });
        (dec, st)
    }));
    let Ok((dec, st)) = res else {
        let (loc, msg) = take_panic().unwrap_or_default();
        ctx.skip_foreign(format!("a parser panicked ({loc}: {msg}) — C04's matter"));
        return Ok(());
    };
    ctx.eval_fp(mix(0x17, bytes.len() as u64), true);
    let _ = item;
    match (dec, st) {
        (Err(_), Err(_)) => Ok(()),
        (Ok(_), Err(e)) | (Err(e), Ok(_)) => viol("parsers-disagree", format!("{dmg}: only one of the two readers could open the stream ({e})")),
        (Ok((dframes, derr)), Ok((sframes, serr))) => {
            // the stream-level ShortBlock rule is not a property of an individual frame
            // (nor is TooManySamples: both depend on the frame's position in the stream)
            let short_block = derr.as_deref().map(|e| e.contains("ShortBlock") || e.contains("TooManySamples")).unwrap_or(false);
            let n = dframes.len().min(sframes.len());
            for i in 0..n {
                match &sframes[i] {
                    Err(t) => return viol("parsers-disagree", format!("{dmg}: frame {i}: structural parser accepted it but {t}; the decoder returned {} samples", dframes[i].len())),
                    Ok(s) if *s != dframes[i] => {
                        return viol("parsers-disagree", format!("{dmg}: frame {i}: structural expansion ({} samples) differs from the decoder's frame ({} samples)", s.len(), dframes[i].len()));
                    }
                    _ => {}
                }
            }
            if dframes.len() != sframes.len() && !short_block {
                probe("c17_parser_disagreement_seen");
                return viol(
                    "parsers-disagree",
                    format!(
                        "{dmg}: decoder accepted {} frames (then {:?}), structural parser accepted {} (then {:?})",
                        dframes.len(),
                        derr,
                        sframes.len(),
                        serr
                    ),
                );
            }
            if short_block {
                probe("c17_shortblock_excluded");
            }
            Ok(())
        }
    }
}

/// a small generator-made file (refflac's frame writer: subframe alternatives the crate's encoder never
/// emits, block size changing from frame to frame) as the corpus file
fn make_gen_item(ch: &Choices) -> Option<Item> {
    let fx = crate::scen_rd::make_foreign_fixture_sized(ch, true, true)?;
    let rs = refflac::parse_stream(&fx.bytes, 0).ok()?;
    probe("dmg_generator_made_file");
    Some(Item {
        channels: fx.pcm.channels,
        block: rs.meta.si.max_block as usize,
        desc: format!("generator-made file, {} frames, {} bytes, table={:?}, bits={} channels={}", rs.frames.len(), fx.bytes.len(), fx.shape, fx.pcm.bps, fx.pcm.channels),
        bytes: fx.bytes,
        rs,
    })
}

pub fn run_gen(ctx: &mut Ctx) -> R {
    run_with(ctx, true)
}

pub fn run(ctx: &mut Ctx) -> R {
    run_with(ctx, false)
}

fn run_with(ctx: &mut Ctx, generator: bool) -> R {
    let ch = ctx.ch.clone();
    let item = if generator { make_gen_item(&ch) } else { make_item(&ch, true) };
    let Some(item) = item else {
        ctx.skip_foreign("corpus file could not be built");
        return Ok(());
    };
    ctx.describe(|| item.desc.clone());
    let nbits = item.bytes.len() * 8;
    let a = item.rs.meta.audio_start;
    let pat_seed = ch.raw("dmg.pattern");
    let rot = ch.draw("dmg.rot", 1000) as usize;
    let thorough = ctx.tier == Tier::Thorough;
    let mut rng = Xoshiro::new(pat_seed ^ 0xD00D);
    // coordinates
    let mut coords: Vec<Dmg> = Vec::new();
    let big = item.bytes.len() > 700;
    let stride = if big { 1 + item.bytes.len() / 200 } else { 1 };
    for bit in (0..nbits).step_by(stride) {
        if ctx.is("C05") && bit < a * 8 && !(bit >= 26 * 8 && bit < 42 * 8) {
            continue; // C05 speaks of flips in the audio frames (plus the stored digest for clause 4)
        }
        coords.push(Dmg::Flip(bit));
    }
    for n in (0..item.bytes.len()).step_by(stride) {
        coords.push(Dmg::Trunc(n));
    }
    if !ctx.is("C05") {
        // all-ones runs: 8 bytes at every byte offset of the metadata (each field is covered exactly at
        // some offset), 16-byte sectors over the whole file
        for at in (0..a).step_by(stride) {
            coords.push(Dmg::Ones(at, 8));
        }
        for i in 0..item.bytes.len().div_ceil(16) {
            coords.push(Dmg::Ones(i * 16, 16));
        }
        for at in (0..a.saturating_sub(2)).step_by(stride.max(3)) {
            coords.push(Dmg::Ones(at, 3));
            coords.push(Dmg::Zeros(at, 3));
        }
        for at in (4..a).step_by(stride.max(2)) {
            coords.push(Dmg::Zeros(at, 8));
        }
    }
    if !ctx.is("C05") || thorough {
        for i in 0..item.bytes.len().div_ceil(16) {
            if ctx.is("C05") && i * 16 < a {
                continue;
            }
            coords.push(Dmg::ZeroSector(i));
        }
        let extra = if thorough { 600 } else { 150 };
        for _ in 0..extra {
            let f = a * 8 + (rng.next() as usize) % (nbits - a * 8).max(1);
            coords.push(Dmg::FlipRepaired(f.min(nbits - 1)));
        }
        for _ in 0..extra / 2 {
            // C05 speaks of damage to the audio frames: keep its double flips there
            let (lo, span) = if ctx.is("C05") { (a * 8, (nbits - a * 8).max(1)) } else { (0, nbits) };
            let x = lo + (rng.next() as usize) % span;
            let y = lo + (rng.next() as usize) % span;
            coords.push(Dmg::DoubleFlip(x.min(nbits - 1), y.min(nbits - 1)));
        }
    }
    let per_coord = if thorough { N_ENTRY } else { 6 };
    for (ci, dmg) in coords.iter().enumerate() {
        let bytes = apply(&item, dmg);
        let label = format!("{dmg:?}");
        let pat = Choices::generate(mix(pat_seed, ci as u64));
        match dmg {
            Dmg::Flip(b) => where_probe(&item, *b),
            Dmg::Trunc(n) => {
                if *n < a {
                    probe("trunc_in_metadata");
                } else if item.rs.frames.iter().any(|f| f.start == *n) {
                    probe("trunc_on_frame_boundary");
                } else if item.rs.frames.iter().any(|f| *n > f.start && *n < f.start + f.header_len) {
                    probe("trunc_in_frame_header");
                } else if item.rs.frames.iter().any(|f| *n + 2 >= f.end && *n < f.end) {
                    probe("trunc_in_frame_footer");
                } else {
                    probe("trunc_in_subframe");
                }
            }
            Dmg::FlipRepaired(_) => probe("dmg_flip_with_checksums_repaired"),
            Dmg::DoubleFlip(..) => probe("dmg_double_flip"),
            Dmg::ZeroSector(_) => probe("dmg_zero_sector"),
            Dmg::Ones(..) => probe("dmg_all_ones_run"),
            Dmg::Zeros(..) => probe("dmg_all_zeros_run"),
        }
        match ctx.prop.as_str() {
            "C04" => {
                for k in 0..per_coord {
                    let which = (ci + rot + k * 3) % N_ENTRY;
                    c04_one(ctx, &item, &bytes, &label, which, &pat)?;
                }
            }
            "C05" => {
                let rs_alt = refflac::parse_stream(&bytes, 0).ok();
                let in_digest = matches!(dmg, Dmg::Flip(b) if *b < a * 8);
                let plain = matches!(dmg, Dmg::Flip(_) | Dmg::Trunc(_) | Dmg::DoubleFlip(..)) && !in_digest;
                if !in_digest {
                    let n_readers = if thorough { 3 } else { 2 };
                    for k in 0..n_readers {
                        let rk = RKINDS[(ci + rot + k * 3) % RKINDS.len()];
                        c05_one(ctx, &item, &bytes, &label, plain, rk, &pat, &rs_alt)?;
                    }
                }
                if in_digest || matches!(dmg, Dmg::FlipRepaired(_)) || ci % 3 == 0 {
                    c05_verify(ctx, &bytes, &label, &rs_alt)?;
                }
                if let (Dmg::FlipRepaired(_), Some(rs)) = (dmg, &rs_alt) {
                    if rs.is_valid() {
                        probe("c05_checksum_consistent_edit_is_valid_stream");
                    }
                }
            }
            _ => {
                c17_one(ctx, &item, &bytes, &label)?;
            }
        }
    }
    Ok(())
}

// ------------------------------------------------------------------------------------------
// the must-reject catalogue (C05 clause 3; the same files also go through C04 and C17)

pub(crate) fn assemble(si_rate: u32, si_ch: u8, si_bps: u32, max_block: u16, total: u64, frames: &[Vec<u8>]) -> Vec<u8> {
    use flac_codec::metadata::{Streaminfo, write_blocks};
    let si = Streaminfo {
        minimum_block_size: max_block,
        maximum_block_size: max_block,
        minimum_frame_size: None,
        maximum_frame_size: None,
        sample_rate: si_rate,
        channels: std::num::NonZero::new(si_ch).unwrap(),
        bits_per_sample: si_bps.try_into().unwrap(),
        total_samples: std::num::NonZero::new(total),
        md5: None,
    };
    let mut out = Vec::new();
    write_blocks(&mut out, [flac_codec::metadata::Block::from(si)]).unwrap();
    for f in frames {
        out.extend_from_slice(f);
    }
    out
}

pub fn run_catalogue(ctx: &mut Ctx) -> R {
    let ch = ctx.ch.clone();
    // frames from the stream writer: self-describing, so any STREAMINFO can be put in front
    let scratch = Disk::new(&ctx.ch, false);
    let rate = *ch.pick("cat.rate", &[44100u32, 48000, 8000]);
    let chn = 1 + ch.draw("cat.ch", 2) as u8;
    let bps = *ch.pick("cat.bps", &[16u32, 8, 24]);
    let opts = flac_codec::encode::Options::default();
    let file = scratch.create(Vec::new());
    let mut w = flac_codec::encode::FlacStreamWriter::new(scratch.open(file, Benign::none()), opts);
    let lens = [16 + ch.draw("cat.len0", 32) as usize, 16 + ch.draw("cat.len1", 32) as usize, 1 + ch.draw("cat.len2", 40) as usize];
    let max_block = *lens.iter().max().unwrap() as u16;
    let mut frames: Vec<Vec<u8>> = Vec::new();
    let mut pcm: Vec<Vec<i32>> = Vec::new();
    for len in lens {
        let p = draw_pcm(&ch, chn, bps, len);
        let before = scratch.len(file);
        if w.write(rate, chn, bps, &p.inter).is_err() {
            ctx.skip_foreign("stream writer refused catalogue frame");
            return Ok(());
        }
        frames.push(scratch.data(file)[before..].to_vec());
        pcm.push(p.inter);
    }
    let total: u64 = lens.iter().map(|l| *l as u64).sum();
    let base = assemble(rate, chn, bps, max_block, total, &frames);
    ctx.describe(|| format!("catalogue over 3 frames of {lens:?} samples, rate={rate} ch={chn} bits={bps}"));
    // sanity: the assembled baseline is valid for both refflac and the crate
    let rs = match refflac::parse_stream(&base, 0) {
        Ok(r) if r.is_valid() => r,
        other => {
            ctx.skip_foreign(format!("assembled baseline not valid per refflac: {:?}", other.map(|r| (r.end, r.hard))));
            return Ok(());
        }
    };
    let good = decode_all(Cursor::new(&base), RKind::SampleToEnd, &ch, 16);
    if good.err.is_some() || good.samples != pcm.concat() {
        return viol("silent-accept", format!("assembled valid baseline is not decoded correctly: {:?}", good.err));
    }
    let a = rs.meta.audio_start;
    // (name, bytes) — every entry MUST be rejected
    let mut cat: Vec<(String, Vec<u8>)> = Vec::new();
    let other_rate = if rate == 44100 { 48000 } else { 44100 };
    cat.push(("STREAMINFO rate differs from frames".into(), assemble(other_rate, chn, bps, max_block, total, &frames)));
    cat.push(("STREAMINFO channels differ from frames".into(), assemble(rate, chn % 8 + 1, bps, max_block, total, &frames)));
    cat.push(("STREAMINFO depth differs from frames".into(), assemble(rate, chn, if bps == 16 { 24 } else { 16 }, max_block, total, &frames)));
    cat.push(("frame block size above STREAMINFO maximum".into(), assemble(rate, chn, bps, max_block - 1, total, &frames)));
    cat.push(("total samples beyond the data (truncated stream)".into(), assemble(rate, chn, bps, max_block, total + 5, &frames)));
    // a short (<= 14 samples) non-final block
    {
        let f2 = scratch.create(Vec::new());
        let mut w2 = flac_codec::encode::FlacStreamWriter::new(scratch.open(f2, Benign::none()), flac_codec::encode::Options::default());
        let l = [1 + ch.draw("cat.short", 14) as usize, 20usize];
        let mut fr = Vec::new();
        for len in l {
            let p = draw_pcm(&ch, chn, bps, len);
            let before = scratch.len(f2);
            if w2.write(rate, chn, bps, &p.inter).is_ok() {
                fr.push(scratch.data(f2)[before..].to_vec());
            }
        }
        if fr.len() == 2 {
            cat.push((format!("non-final block of {} samples", l[0]), assemble(rate, chn, bps, 20, (l[0] + l[1]) as u64, &fr)));
        }
    }
    // header / subframe code edits with checksums repaired, on frame index fi
    let fi = ch.draw("cat.frame", 3) as usize;
    let f = &rs.frames[fi];
    let hb = f.start * 8;
    let mut edit = |name: &str, at: usize, n: usize, v: u64, fix8: bool| {
        let mut b = base.clone();
        refflac::set_bits(&mut b, at, n, v);
        refflac::repair_crcs(&mut b, f.start, f.header_len, f.end, fix8);
        cat.push((format!("frame {fi}: {name} (checksums valid)"), b));
    };
    edit("sync code broken", hb + 13, 1, 1, true);
    edit("reserved block size code 0000", hb + 16, 4, 0, true);
    edit("forbidden sample rate code 1111", hb + 20, 4, 15, true);
    for v in 11..=15u64 {
        edit(&format!("reserved channel assignment {v}"), hb + 24, 4, v, true);
    }
    edit("reserved bit depth code 011", hb + 28, 3, 3, true);
    let s0 = &f.subs[0];
    edit("subframe padding bit set", s0.header_bit, 1, 1, false);
    for t in (2u64..=7).chain(13..=31) {
        edit(&format!("reserved subframe type {t}"), s0.header_bit + 1, 6, t, false);
    }
    for s in &f.subs {
        if let Some(p) = s.method_bit {
            edit("reserved residual coding method 10", p, 2, 2, false);
            edit("reserved residual coding method 11", p, 2, 3, false);
        }
        if let Some(p) = s.prec_bit {
            edit("forbidden LPC precision 1111", p, 4, 15, false);
        }
        if let Some(p) = s.shift_bit {
            edit("negative LPC shift", p, 5, 0b10000, false);
        }
        if let Some(p) = s.porder_bit {
            edit("partition order 15 (more partitions than samples)", p, 4, 15, false);
        }
    }
    // wrong checksums, everything else valid
    {
        let mut b = base.clone();
        b[f.start + f.header_len - 1] ^= 0x01;
        refflac::repair_crcs(&mut b, f.start, f.header_len, f.end, false);
        cat.push((format!("frame {fi}: wrong CRC-8, CRC-16 valid"), b));
        let mut b = base.clone();
        b[f.end - 1] ^= 0x80;
        cat.push((format!("frame {fi}: wrong CRC-16"), b));
    }
    let _ = a;
    let pat_seed = ch.raw("cat.pattern");
    for (ci, (name, bytes)) in cat.iter().enumerate() {
        let pat = Choices::generate(mix(pat_seed, ci as u64));
        probe("catalogue_entry");
        match ctx.prop.as_str() {
            "C04" => {
                for which in 0..N_ENTRY {
                    let item = Item {
                        bytes: base.clone(),
                        channels: chn as usize,
                        block: max_block as usize,
                        rs: rs.clone(),
                        desc: String::new(),
                    };
                    c04_one(ctx, &item, bytes, name, which, &pat)?;
                }
            }
            "C05" => {
                for rk in RKINDS {
                    let res = catch_unwind(AssertUnwindSafe(|| decode_all(Cursor::new(bytes), rk, &pat, 16)));
                    let Ok(r) = res else {
                        let _ = take_panic();
                        ctx.skip_foreign("decoder panicked — C04's matter");
                        continue;
                    };
                    ctx.eval_fp(mix(ci as u64, rk as u64), true);
                    if r.err.is_none() {
                        return viol(
                            "silent-accept",
                            format!("{name}: reader {rk:?} decoded {} samples to the end without reporting an error", r.samples.len()),
                        );
                    }
                    // what was delivered before the error is a whole-frame prefix of the genuine audio
                    let flat = pcm.concat();
                    let mut ok = r.samples.is_empty();
                    let mut acc = 0;
                    for p in &pcm {
                        acc += p.len();
                        if acc == r.samples.len() && flat[..acc] == r.samples[..] {
                            ok = true;
                        }
                    }
                    // assembled files with their own frame set (the short-block case) are judged on error only
                    if !ok && !name.starts_with("non-final block") {
                        return viol("bad-prefix", format!("{name}: reader {rk:?} delivered {} samples before the error, not a whole-frame prefix of the audio", r.samples.len()));
                    }
                }
                match catch_unwind(AssertUnwindSafe(|| flac_codec::decode::verify_reader(Cursor::new(bytes)))) {
                    Ok(Ok(v)) => return viol("silent-accept", format!("{name}: verify_reader returned Ok({v:?})")),
                    Ok(Err(_)) => {}
                    Err(_) => {
                        let _ = take_panic();
                    }
                }
            }
            _ => {
                let item = Item {
                    bytes: base.clone(),
                    channels: chn as usize,
                    block: max_block as usize,
                    rs: rs.clone(),
                    desc: String::new(),
                };
                c17_one(ctx, &item, bytes, name)?;
            }
        }
    }
    Ok(())
}
