//! Generators for metadata block values reachable through the public constructors.

use crate::rng::{Choices, Xoshiro};
use flac_codec::metadata::{Application, Block, Cuesheet, Padding, Picture, PictureType, SeekPoint, SeekTable, VorbisComment};

const WORDS: &[&str] = &[
    "", "a", "Title", "ARTIST", "naïve", "日本語", "🎵 music", "x=y=z", "with space", "ALBUM", "tab\there", "q", "nul\0in", "line\nbreak",
];

pub fn draw_string(ch: &Choices, max_rep: u64) -> String {
    let w = *ch.pick("meta.word", WORDS);
    let rep = 1 + ch.draw("meta.rep", max_rep.max(1));
    w.repeat(rep as usize)
}

pub fn draw_comment(ch: &Choices) -> VorbisComment {
    let mut vc = VorbisComment {
        vendor_string: draw_string(ch, 3),
        fields: Vec::new(),
    };
    let n = ch.draw("meta.vc.n", 5);
    for _ in 0..n {
        let k = *ch.pick("meta.vc.key", &["TITLE", "ARTIST", "ALBUM", "X", "COMMENT"]);
        vc.fields.push(format!("{k}={}", draw_string(ch, 4)));
    }
    // `fields` is a public Vec<String>: entries that are not NAME=value at all (no '=', empty,
    // '=' first) are values the writer accepts as well
    if ch.draw("meta.vc.odd", 4) == 0 {
        let odd = *ch.pick("meta.vc.odd.kind", &["", "noequals", "=leading", "日本語", "trailing=", " "]);
        let at = ch.draw("meta.vc.odd.at", vc.fields.len() as u64 + 1) as usize;
        vc.fields.insert(at, odd.to_string());
        crate::monitor::probe("meta_comment_entry_without_equals");
    }
    vc
}

pub fn draw_bytes(ch: &Choices, n: usize) -> Vec<u8> {
    let mut r = Xoshiro::new(ch.raw("meta.bytes.seed"));
    (0..n).map(|_| r.next() as u8).collect()
}

pub fn draw_application(ch: &Choices) -> Application {
    let n = *ch.pick("meta.app.n", &[0usize, 1, 4, 7, 100, 300]);
    Application {
        id: *ch.pick("meta.app.id", &[0x72696666u32, 0x61696666, 0x1234, 0, u32::MAX]),
        data: draw_bytes(ch, n),
    }
}

pub const PICTYPES: &[PictureType] = &[
    PictureType::FrontCover,
    PictureType::Other,
    PictureType::BackCover,
    PictureType::Fish,
    PictureType::PublisherLogo,
    PictureType::Png32x32,
    PictureType::GeneralFileIcon,
];

pub fn draw_picture(ch: &Choices, allow_icons: bool) -> Picture {
    let t = if allow_icons {
        *ch.pick("meta.pic.type", PICTYPES)
    } else {
        *ch.pick("meta.pic.type5", &PICTYPES[..5])
    };
    let n = *ch.pick("meta.pic.n", &[0usize, 1, 16, 200, 1000]);
    Picture {
        picture_type: t,
        media_type: (*ch.pick("meta.pic.mime", &["image/png", "image/jpeg", "", "-->", "画像/png", "a\0b"])).to_string(),
        description: draw_string(ch, 3),
        width: *ch.pick("meta.pic.w", &[0u32, 1, 32, 640, u32::MAX]),
        height: *ch.pick("meta.pic.h", &[0u32, 1, 32, 480, u32::MAX]),
        color_depth: *ch.pick("meta.pic.d", &[0u32, 8, 24, 32, u32::MAX]),
        colors_used: std::num::NonZero::new(*ch.pick("meta.pic.c", &[0u32, 2, 256, u32::MAX])),
        data: draw_bytes(ch, n),
    }
}

pub fn draw_seektable(ch: &Choices) -> SeekTable {
    let n = ch.draw("meta.st.n", 6);
    let ph = ch.draw("meta.st.ph", 4);
    let mut pts = Vec::new();
    // mostly from 0; sometimes at the top of the 64-bit fields (u64::MAX itself is the placeholder mark)
    let mut s = *ch.pick("meta.st.base", &[0u64, 0, 0, 0, 1 << 36, u64::MAX - 2, u64::MAX - 7000]);
    let mut o = *ch.pick("meta.st.obase", &[0u64, 0, 0, u64::MAX - 20000, u64::MAX]);
    if s > 1 << 40 {
        crate::monitor::probe("meta_seekpoint_near_u64_max");
    }
    for i in 0..n {
        if i > 0 {
            let ns = s.saturating_add(1 + ch.draw("meta.st.ds", 5000));
            if ns == s {
                break;
            }
            s = ns;
            o = o.saturating_add(ch.draw("meta.st.do", 9000));
        }
        pts.push(SeekPoint::Defined {
            sample_offset: s,
            byte_offset: o,
            frame_samples: *ch.pick("meta.st.fs", &[4096u16, 16, 1, 0, 65535]),
        });
    }
    // a defined point at u64::MAX would be indistinguishable from a placeholder once written: the
    // constructors must refuse it (a table that holds one cannot be built), and then it is left out
    if matches!(pts.last(), Some(SeekPoint::Defined { sample_offset: u64::MAX, .. })) {
        crate::monitor::probe("meta_seekpoint_defined_at_placeholder_mark");
        let r: Result<flac_codec::metadata::contiguous::Contiguous<{ SeekTable::MAX_POINTS }, SeekPoint>, _> = pts.clone().try_into();
        if r.is_err() {
            crate::monitor::probe("meta_seekpoint_defined_at_placeholder_mark_refused");
            pts.pop();
        }
    }
    for _ in 0..ph {
        pts.push(SeekPoint::Placeholder);
    }
    SeekTable {
        points: pts.try_into().unwrap(),
    }
}

/// cue sheet text for a CD-DA style disc of `total` samples (a multiple of 588)
pub fn draw_cue_text(ch: &Choices, total: u64) -> String {
    // mostly small discs, sometimes at the format's limits (99 tracks for CD-DA)
    let tracks = *ch.pick("meta.cue.tracks", &[1u64, 2, 3, 4, 2, 3, 98, 99, 50]);
    let mut t = String::new();
    if ch.draw("meta.cue.cat", 2) == 1 {
        t.push_str("CATALOG 1234567890123\n");
    }
    t.push_str("FILE \"x.wav\" WAVE\n");
    let sectors = total / 588;
    let per = (sectors / (tracks + 1)).max(1);
    for k in 0..tracks {
        t.push_str(&format!("  TRACK {:02} AUDIO\n", k + 1));
        if ch.draw("meta.cue.flags", 3) == 2 {
            t.push_str("    FLAGS PRE\n");
        }
        match ch.draw("meta.cue.isrc", 6) {
            2 => t.push_str("    ISRC ABCDE7654321\n"),
            // the dashed presentation form of the same 12 characters
            3 => {
                t.push_str("    ISRC AA-6Q7-20-00047\n");
                crate::monitor::probe("cue_isrc_with_dashes");
            }
            4 => t.push_str("    ISRC aa6q72000047\n"),
            _ => {}
        }
        let base = k * per;
        let mut idx = 1;
        let mut pos = base;
        if k > 0 && ch.draw("meta.cue.pregap", 2) == 1 && per > 2 {
            t.push_str(&format!("    INDEX 00 {}\n", msf(pos)));
            pos += 1;
        }
        // index points per track: mostly a few, sometimes up to the limit of 99 (numbers 01..99)
        let extra = if tracks <= 4 { *ch.pick("meta.cue.idx", &[0u64, 1, 2, 97, 98]) } else { ch.draw("meta.cue.idx", 2) };
        for _ in 0..=extra {
            t.push_str(&format!("    INDEX {:02} {}\n", idx, msf(pos)));
            idx += 1;
            pos += 1;
            if pos >= base + per {
                break;
            }
        }
    }
    t
}

fn msf(sector: u64) -> String {
    format!("{:02}:{:02}:{:02}", sector / (75 * 60), (sector / 75) % 60, sector % 75)
}

/// cue sheet text for a non-CD-DA stream of `total` samples (not a multiple of 588): offsets are plain
/// sample numbers, up to 254 tracks and 254 index points, catalog number up to 128 digits
pub fn draw_cue_text_non_cdda(ch: &Choices, total: u64) -> String {
    let tracks = *ch.pick("meta.cuen.tracks", &[1u64, 2, 3, 5, 100, 253, 254, 255]);
    let mut t = String::new();
    match ch.draw("meta.cuen.cat", 5) {
        1 => t.push_str("CATALOG 1234567890123\n"),
        2 => t.push_str("CATALOG \"42\"\n"),
        3 => t.push_str(&format!("CATALOG {}\n", "7".repeat(128))),
        4 => t.push_str(&format!("CATALOG {}\n", "7".repeat(129))),
        _ => {}
    }
    t.push_str("FILE \"x.flac\" FLAC\n");
    let per = (total / (tracks + 1)).max(4);
    for k in 0..tracks {
        t.push_str(&format!("  TRACK {:02} AUDIO\n", k + 1));
        match ch.draw("meta.cuen.isrc", 6) {
            2 => t.push_str("    ISRC ABCDE7654321\n"),
            3 => t.push_str("    ISRC \"AA-6Q7-20-00047\"\n"),
            _ => {}
        }
        if ch.draw("meta.cuen.flags", 4) == 3 {
            t.push_str("    FLAGS PRE\n");
        }
        let base = k * per;
        let mut pos = base;
        let mut idx = if k > 0 && ch.draw("meta.cuen.pregap", 2) == 1 { 0 } else { 1 };
        let mut extra = if tracks <= 5 { *ch.pick("meta.cuen.idx", &[0u64, 1, 2, 252, 253, 254]) } else { ch.draw("meta.cuen.idx2", 2) };
        if idx == 0 {
            extra = extra.max(1); // a pre-gap point is followed by INDEX 01
        }
        for _ in 0..=extra {
            t.push_str(&format!("    INDEX {:02} {}\n", idx, pos));
            idx += 1;
            pos += 1 + ch.draw("meta.cuen.step", 3);
            if pos >= base + per {
                break;
            }
        }
    }
    crate::monitor::probe("cue_non_cdda_text");
    t
}

pub fn draw_cuesheet(ch: &Choices) -> Option<Cuesheet> {
    if ch.draw("meta.cue.noncdda", 3) == 2 {
        let total = 588 * (600 + ch.draw("meta.cue.len", 4000)) + 1 + ch.draw("meta.cue.off588", 587);
        let text = draw_cue_text_non_cdda(ch, total);
        let c = Cuesheet::parse(total, &text);
        if std::env::var_os("VERIF_DEBUG_CUE").is_some() {
            if let Err(e) = &c {
                eprintln!("CUE refused: {e:?} tracks={} total={total}", text.matches("TRACK ").count());
            }
        }
        let c = c.ok();
        if c.is_some() {
            crate::monitor::probe("cue_non_cdda_accepted");
            if text.contains("TRACK 254 ") {
                crate::monitor::probe("cue_non_cdda_accepted_254_tracks");
            }
            if text.contains("INDEX 254 ") {
                crate::monitor::probe("cue_non_cdda_accepted_index_254");
            }
            if text.contains(&"7".repeat(128)) {
                crate::monitor::probe("cue_non_cdda_accepted_128_digit_catalog");
            }
        }
        return c;
    }
    let total = 588 * (600 + ch.draw("meta.cue.len", 4000));
    let text = draw_cue_text(ch, total);
    let mut c = Cuesheet::parse(total, &text).ok()?;
    // the track table can also be built from a plain Vec (Contiguous::try_from): drop the first track, so
    // that the first element is not a valid first one — the constructor must refuse it, or whatever the
    // writer then accepts must read back
    if ch.draw("meta.cue.fromvec", 5) == 4 {
        use flac_codec::metadata::contiguous::Contiguous;
        match &mut c {
            Cuesheet::CDDA { tracks, .. } if tracks.len() > 1 => {
                let mut v: Vec<_> = std::mem::take(tracks).into();
                let keep = v.clone();
                v.remove(0);
                match Contiguous::try_from(v) {
                    Ok(t) => {
                        *tracks = t;
                        crate::monitor::probe("cue_track_table_from_vec_with_invalid_first_accepted");
                    }
                    Err(_) => {
                        *tracks = Contiguous::try_from(keep).ok()?;
                        crate::monitor::probe("cue_track_table_from_vec_with_invalid_first_refused");
                    }
                }
            }
            _ => {}
        }
    }
    // the lead-in is a public field of the CD-DA variant: any value can be handed to the writer
    if let Cuesheet::CDDA { lead_in_samples, .. } = &mut c {
        if ch.draw("meta.cue.leadin", 4) == 3 {
            *lead_in_samples = *ch.pick("meta.cue.leadin.v", &[0u64, 1, 588, 88199, 88201, 1 << 40, u64::MAX]);
            crate::monitor::probe("cue_cdda_lead_in_other_than_88200");
        }
    }
    Some(c)
}

/// a list of optional blocks (no STREAMINFO), obeying the single-instance rules unless `break_rules`
pub fn draw_blocks(ch: &Choices, max: u64, break_rules: bool) -> Vec<Block> {
    let n = ch.draw("meta.n", max + 1);
    let mut out: Vec<Block> = Vec::new();
    let (mut has_vc, mut has_st, mut has_png, mut has_icon) = (false, false, false, false);
    for _ in 0..n {
        match ch.draw("meta.kind", 7) {
            0 => {
                if !has_vc || break_rules {
                    out.push(draw_comment(ch).into());
                    has_vc = true;
                }
            }
            1 => out.push(draw_application(ch).into()),
            2 => {
                let p = draw_picture(ch, true);
                let ok = match p.picture_type {
                    PictureType::Png32x32 => !std::mem::replace(&mut has_png, true),
                    PictureType::GeneralFileIcon => !std::mem::replace(&mut has_icon, true),
                    _ => true,
                };
                if ok || break_rules {
                    out.push(p.into());
                }
            }
            3 => {
                if !has_st || break_rules {
                    out.push(draw_seektable(ch).into());
                    has_st = true;
                }
            }
            4 => {
                if let Some(c) = draw_cuesheet(ch) {
                    out.push(c.into());
                }
            }
            _ => out.push(
                Padding {
                    size: (*ch.pick("meta.pad", &[0u32, 1, 4, 17, 100, 1000, 9000])).try_into().unwrap(),
                }
                .into(),
            ),
        }
    }
    out
}
