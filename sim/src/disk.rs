//! Simulated storage and transport: the only byte sinks and sources the code under test sees.
//!
//! Every call on a handle is an event with a global sequence number. Benign faults (short
//! transfers, EINTR) are drawn from the shared choice stream; hard faults (errors, Ok(0),
//! disk full) are placed explicitly by event index so that sweeps can enumerate them.

use crate::monitor::{fault_fired, probe};
use crate::rng::Choices;
use std::cell::RefCell;
use std::io::{self, BufRead, Read, Seek, SeekFrom, Write};
use std::rc::Rc;

#[derive(Clone, Copy, Debug, Default)]
pub struct Benign {
    /// per-mille probability per call
    pub short_write: u32,
    pub eintr_write: u32,
    pub short_read: u32,
    pub eintr_read: u32,
    /// maximum bytes transferred per call (0 = unlimited)
    pub max_xfer: usize,
}

impl Benign {
    pub fn none() -> Self {
        Self::default()
    }
    pub fn any(&self) -> bool {
        self.short_write + self.eintr_write + self.short_read + self.eintr_read > 0 || self.max_xfer > 0
    }
    /// swarm-style: about a third of the runs fault-free, the rest a random subset of kinds at
    /// random rates, plus storms.
    pub fn draw(ch: &Choices) -> Self {
        let mode = ch.draw("benign.mode", 6);
        if mode < 2 {
            return Self::none();
        }
        if mode == 5 {
            // storm
            return Self {
                short_write: 600,
                eintr_write: 300,
                short_read: 600,
                eintr_read: 300,
                max_xfer: *ch.pick("benign.storm.xfer", &[0usize, 1, 3]),
            };
        }
        let rates = [0u32, 5, 30, 120, 333];
        Self {
            short_write: *ch.pick("benign.sw", &rates),
            eintr_write: *ch.pick("benign.ew", &rates),
            short_read: *ch.pick("benign.sr", &rates),
            eintr_read: *ch.pick("benign.er", &rates),
            max_xfer: *ch.pick("benign.xfer", &[0usize, 0, 0, 1, 2, 7, 64, 4096]),
        }
    }
}

thread_local! {
    /// When set (by a scenario, around its sweep), injected hard read/write errors cycle through several
    /// `ErrorKind`s instead of always being `Other`: the kind is a pure function of the salt and the
    /// index of the failing event, so a replay reproduces it without any extra draw.
    pub static ERROR_KIND_SALT: std::cell::Cell<Option<u64>> = const { std::cell::Cell::new(None) };
}

fn injected_error(event: u64, what: &'static str) -> io::Error {
    const KINDS: [io::ErrorKind; 4] = [io::ErrorKind::Other, io::ErrorKind::UnexpectedEof, io::ErrorKind::BrokenPipe, io::ErrorKind::InvalidData];
    match ERROR_KIND_SALT.with(|c| c.get()) {
        None => io::Error::other(what),
        Some(salt) => {
            let k = KINDS[(event.wrapping_add(salt) % 4) as usize];
            if k != io::ErrorKind::Other {
                fault_fired("io_error_kind_varied");
            }
            io::Error::new(k, what)
        }
    }
}

#[derive(Clone, Copy, Debug, PartialEq, Eq)]
pub enum HardKind {
    /// the event at index `at` fails once with ErrorKind::Other
    ErrorOnce,
    /// every event from index `at` on fails
    ErrorFrom,
    /// the write at index `at` (and all later writes) return Ok(0)
    WriteZero,
    /// the medium accepts bytes until it holds `capacity` bytes in total, then StorageFull
    DiskFull,
    /// transient: the read/write at index `at` transfers only half of what was asked (at least 1)
    ShortOnce,
    /// transient: the read/write at index `at` answers ErrorKind::Interrupted once
    EintrOnce,
}

#[derive(Clone, Copy, Debug)]
pub struct Hard {
    pub kind: HardKind,
    /// event index (0-based, counted over the ops selected by `ops`)
    pub at: u64,
    /// which ops are counted / can fail
    pub ops: OpMask,
    pub capacity: u64,
}

#[derive(Clone, Copy, Debug, PartialEq, Eq)]
pub struct OpMask(pub u8);
impl OpMask {
    pub const WRITE: u8 = 1;
    pub const FLUSH: u8 = 2;
    pub const SEEK: u8 = 4;
    pub const READ: u8 = 8;
    pub const ALL_W: OpMask = OpMask(1 | 2 | 4);
    pub const ALL_R: OpMask = OpMask(8 | 4);
    pub const ALL: OpMask = OpMask(15);
    pub fn has(&self, b: u8) -> bool {
        self.0 & b != 0
    }
}

pub struct DiskState {
    pub files: Vec<Vec<u8>>,
    pub ch: Choices,
    /// global event sequence number (all ops)
    pub seq: u64,
    /// count of ops selected by hard.ops (the fault coordinate space)
    pub hard_seq: u64,
    pub hard: Option<Hard>,
    pub hard_fired: u64,
    pub fp: u64,
    pub trace: Option<Vec<String>>,
    /// (file, offset, data) of every write that reached the medium, in order
    pub record_writes: bool,
    pub writes: Vec<(usize, u64, Vec<u8>)>,
    pub eof_polls: u64,
    pub budget: u64,
    pub eintr_run: u32,
    pub frame_sized_transfers: u64,
    pub faults_in_run: u64,
    /// when set, every handle opened on this disk uses these benign fault rates
    pub force_benign: Option<Benign>,
}

#[derive(Clone)]
pub struct Disk(pub Rc<RefCell<DiskState>>);

pub const HANG_MSG: &str = "SIM-HANG";

impl Disk {
    pub fn new(ch: &Choices, trace: bool) -> Self {
        Disk(Rc::new(RefCell::new(DiskState {
            files: Vec::new(),
            ch: ch.clone(),
            seq: 0,
            hard_seq: 0,
            hard: None,
            hard_fired: 0,
            fp: 0x1234_5678_9abc_def0,
            trace: if trace { Some(Vec::new()) } else { None },
            record_writes: false,
            writes: Vec::new(),
            eof_polls: 0,
            budget: 20_000_000,
            eintr_run: 0,
            frame_sized_transfers: 0,
            faults_in_run: 0,
            force_benign: None,
        })))
    }
    pub fn create(&self, data: Vec<u8>) -> usize {
        let mut d = self.0.borrow_mut();
        d.files.push(data);
        d.files.len() - 1
    }
    pub fn force_benign(&self, b: Option<Benign>) {
        self.0.borrow_mut().force_benign = b;
    }
    pub fn open(&self, file: usize, benign: Benign) -> SimFile {
        let benign = self.0.borrow().force_benign.unwrap_or(benign);
        SimFile {
            disk: self.clone(),
            file,
            pos: 0,
            benign,
            faulty: true,
            cut: None,
        }
    }
    /// a handle that never faults and is not counted as events (harness-side access)
    pub fn data(&self, file: usize) -> Vec<u8> {
        self.0.borrow().files[file].clone()
    }
    pub fn len(&self, file: usize) -> usize {
        self.0.borrow().files[file].len()
    }
    pub fn set_data(&self, file: usize, data: Vec<u8>) {
        self.0.borrow_mut().files[file] = data;
    }
    pub fn set_hard(&self, h: Option<Hard>) {
        let mut d = self.0.borrow_mut();
        d.hard = h;
        d.hard_seq = 0;
        d.hard_fired = 0;
    }
    pub fn hard_seq(&self) -> u64 {
        self.0.borrow().hard_seq
    }
    pub fn hard_fired(&self) -> u64 {
        self.0.borrow().hard_fired
    }
    pub fn seq(&self) -> u64 {
        self.0.borrow().seq
    }
    pub fn fp(&self) -> u64 {
        self.0.borrow().fp
    }
    pub fn record_writes(&self, on: bool) {
        self.0.borrow_mut().record_writes = on;
    }
    pub fn writes(&self) -> Vec<(usize, u64, Vec<u8>)> {
        self.0.borrow().writes.clone()
    }
    pub fn faults_in_run(&self) -> u64 {
        self.0.borrow().faults_in_run
    }
    pub fn note(&self, s: impl FnOnce() -> String) {
        let mut d = self.0.borrow_mut();
        let seq = d.seq;
        if let Some(t) = d.trace.as_mut() {
            t.push(format!("#{seq} {}", s()));
        }
    }
    pub fn take_trace(&self) -> Vec<String> {
        self.0.borrow_mut().trace.take().unwrap_or_default()
    }
}

impl DiskState {
    fn ev(&mut self, op: u8, fault: u8, res: u8) {
        self.seq += 1;
        self.fp = crate::rng::mix(self.fp, ((op as u64) << 16) | ((fault as u64) << 8) | res as u64);
        if self.seq > self.budget {
            panic!("{HANG_MSG}: event budget exceeded");
        }
    }
    fn tr(&mut self, f: impl FnOnce() -> String) {
        if let Some(t) = self.trace.as_mut() {
            let seq = self.seq;
            t.push(format!("#{seq} {}", f()));
        }
    }
    /// decides whether the hard-fault plan hits this op; returns Some(error) if so
    fn hard_check(&mut self, opbit: u8, len: usize, file: usize) -> Option<HardHit> {
        let h = self.hard?;
        if !h.ops.has(opbit) {
            return None;
        }
        let idx = self.hard_seq;
        self.hard_seq += 1;
        match h.kind {
            HardKind::ErrorOnce if idx == h.at => Some(HardHit::Err),
            HardKind::ShortOnce if idx == h.at && (opbit == OpMask::WRITE || opbit == OpMask::READ) && len >= 2 => Some(HardHit::Room(len / 2)),
            HardKind::EintrOnce if idx == h.at && (opbit == OpMask::WRITE || opbit == OpMask::READ) && len >= 1 => Some(HardHit::Eintr),
            HardKind::ErrorFrom if idx >= h.at => Some(HardHit::Err),
            HardKind::WriteZero if idx >= h.at && opbit == OpMask::WRITE && len > 0 => Some(HardHit::Zero),
            HardKind::DiskFull if opbit == OpMask::WRITE && len > 0 => {
                let used: u64 = self.files[file].len() as u64;
                if used >= h.capacity {
                    Some(HardHit::Full)
                } else {
                    Some(HardHit::Room((h.capacity - used) as usize))
                }
            }
            _ => None,
        }
    }
}

enum HardHit {
    Eintr,
    Err,
    Zero,
    Full,
    Room(usize),
}

pub struct SimFile {
    pub disk: Disk,
    pub file: usize,
    pub pos: u64,
    pub benign: Benign,
    pub faulty: bool,
    /// a read never crosses this absolute offset (models the source splitting its data there)
    pub cut: Option<u64>,
}

impl SimFile {
    pub fn set_pos(mut self, pos: u64) -> Self {
        self.pos = pos;
        self
    }
    pub fn set_cut(mut self, cut: Option<u64>) -> Self {
        self.cut = cut;
        self
    }
    pub fn clone_handle(&self) -> SimFile {
        SimFile {
            disk: self.disk.clone(),
            file: self.file,
            pos: self.pos,
            benign: self.benign,
            faulty: self.faulty,
            cut: self.cut,
        }
    }
}

const OP_WRITE: u8 = 1;
const OP_FLUSH: u8 = 2;
const OP_SEEK: u8 = 3;
const OP_READ: u8 = 4;
const OP_FILL: u8 = 5;

impl Write for SimFile {
    fn write(&mut self, buf: &[u8]) -> io::Result<usize> {
        let mut guard = self.disk.0.borrow_mut();
        let d = &mut *guard;
        let mut room = usize::MAX;
        match d.hard_check(OpMask::WRITE, buf.len(), self.file) {
            Some(HardHit::Err) => {
                d.hard_fired += 1;
                d.faults_in_run += 1;
                fault_fired("io_error_write");
                d.ev(OP_WRITE, 10, 1);
                d.tr(|| format!("write({}) -> Err(Other) [INJECTED]", buf.len()));
                return Err(injected_error(d.hard_seq, "injected write error"));
            }
            Some(HardHit::Zero) => {
                d.hard_fired += 1;
                d.faults_in_run += 1;
                fault_fired("write_zero");
                d.ev(OP_WRITE, 11, 2);
                d.tr(|| format!("write({}) -> Ok(0) [INJECTED write_zero]", buf.len()));
                return Ok(0);
            }
            Some(HardHit::Full) => {
                d.hard_fired += 1;
                d.faults_in_run += 1;
                fault_fired("disk_full");
                d.ev(OP_WRITE, 12, 1);
                d.tr(|| format!("write({}) -> Err(StorageFull) [INJECTED disk_full]", buf.len()));
                return Err(io::Error::new(io::ErrorKind::StorageFull, "injected disk full"));
            }
            Some(HardHit::Room(r)) => {
                room = r;
                if matches!(d.hard.map(|h| h.kind), Some(HardKind::ShortOnce)) {
                    d.hard_fired += 1;
                    d.faults_in_run += 1;
                    fault_fired("short_write_placed");
                }
            }
            Some(HardHit::Eintr) => {
                d.hard_fired += 1;
                d.faults_in_run += 1;
                fault_fired("eintr_write_placed");
                d.ev(OP_WRITE, 1, 1);
                d.tr(|| format!("write({}) -> Err(Interrupted) [INJECTED]", buf.len()));
                return Err(io::Error::from(io::ErrorKind::Interrupted));
            }
            None => {}
        }
        let mut n = buf.len().min(room);
        let mut fault = 0u8;
        if n < buf.len() {
            fault = 13;
            fault_fired("disk_full_short");
        }
        if self.faulty && self.benign.any() && !buf.is_empty() {
            let b = self.benign;
            if b.max_xfer > 0 && n > b.max_xfer {
                n = b.max_xfer;
                fault = 3;
                fault_fired("max_xfer_write");
                d.faults_in_run += 1;
            }
            if b.short_write + b.eintr_write > 0 {
                let v = d.ch.draw("io.w", 1000) as u32;
                // value 0 = no fault so that shrinking removes faults
                if v >= 1000 - b.eintr_write.min(999) && d.eintr_run < 3 {
                    d.eintr_run += 1;
                    d.faults_in_run += 1;
                    fault_fired("eintr_write");
                    d.ev(OP_WRITE, 1, 1);
                    d.tr(|| format!("write({}) -> Err(Interrupted) [INJECTED]", buf.len()));
                    return Err(io::Error::from(io::ErrorKind::Interrupted));
                } else if v >= 1000 - (b.eintr_write + b.short_write).min(999) && n >= 2 {
                    let k = 1 + d.ch.draw("io.w.k", (n - 1) as u64) as usize;
                    n = k;
                    fault = 2;
                    d.faults_in_run += 1;
                    fault_fired("short_write");
                }
            }
        }
        d.eintr_run = 0;
        let pos = self.pos as usize;
        let f = &mut d.files[self.file];
        if f.len() < pos {
            f.resize(pos, 0);
        }
        let overlap = (f.len() - pos).min(n);
        f[pos..pos + overlap].copy_from_slice(&buf[..overlap]);
        f.extend_from_slice(&buf[overlap..n]);
        if d.record_writes {
            d.writes.push((self.file, self.pos, buf[..n].to_vec()));
        }
        if n >= 8 {
            d.frame_sized_transfers += 1;
        }
        self.pos += n as u64;
        d.ev(OP_WRITE, fault, 0);
        let p = self.pos;
        d.tr(|| {
            format!(
                "write({}) -> Ok({n}) pos={p}{}",
                buf.len(),
                if fault != 0 { " [short]" } else { "" }
            )
        });
        Ok(n)
    }

    fn flush(&mut self) -> io::Result<()> {
        let mut guard = self.disk.0.borrow_mut();
        let d = &mut *guard;
        if let Some(HardHit::Err) = d.hard_check(OpMask::FLUSH, 0, self.file) {
            d.hard_fired += 1;
            d.faults_in_run += 1;
            fault_fired("io_error_flush");
            d.ev(OP_FLUSH, 10, 1);
            d.tr(|| "flush -> Err(Other) [INJECTED]".to_string());
            return Err(io::Error::other("injected flush error"));
        }
        d.ev(OP_FLUSH, 0, 0);
        d.tr(|| "flush -> Ok".to_string());
        Ok(())
    }
}

impl Seek for SimFile {
    fn seek(&mut self, to: SeekFrom) -> io::Result<u64> {
        let mut guard = self.disk.0.borrow_mut();
        let d = &mut *guard;
        // stream_position() (Current(0)) is a pure query; it is still an event and can fail
        if let Some(HardHit::Err) = d.hard_check(OpMask::SEEK, 0, self.file) {
            d.hard_fired += 1;
            d.faults_in_run += 1;
            fault_fired("io_error_seek");
            d.ev(OP_SEEK, 10, 1);
            d.tr(|| format!("seek({to:?}) -> Err(Other) [INJECTED]"));
            return Err(io::Error::other("injected seek error"));
        }
        let len = d.files[self.file].len() as i128;
        let new: i128 = match to {
            SeekFrom::Start(p) => p as i128,
            SeekFrom::Current(o) => self.pos as i128 + o as i128,
            SeekFrom::End(o) => len + o as i128,
        };
        if new < 0 || new > u64::MAX as i128 {
            d.ev(OP_SEEK, 0, 1);
            d.tr(|| format!("seek({to:?}) -> Err(InvalidInput)"));
            return Err(io::Error::new(io::ErrorKind::InvalidInput, "seek before start"));
        }
        self.pos = new as u64;
        d.ev(OP_SEEK, 0, 0);
        let p = self.pos;
        d.tr(|| format!("seek({to:?}) -> Ok({p})"));
        Ok(self.pos)
    }
}

impl Read for SimFile {
    fn read(&mut self, buf: &mut [u8]) -> io::Result<usize> {
        let mut guard = self.disk.0.borrow_mut();
        let d = &mut *guard;
        let mut placed_room = usize::MAX;
        match d.hard_check(OpMask::READ, buf.len(), self.file) {
            Some(HardHit::Err) => {
                d.hard_fired += 1;
                d.faults_in_run += 1;
                fault_fired("io_error_read");
                d.ev(OP_READ, 10, 1);
                d.tr(|| format!("read({}) -> Err(Other) [INJECTED]", buf.len()));
                return Err(injected_error(d.hard_seq, "injected read error"));
            }
            Some(HardHit::Eintr) => {
                d.hard_fired += 1;
                d.faults_in_run += 1;
                fault_fired("eintr_read_placed");
                d.ev(OP_READ, 1, 1);
                d.tr(|| format!("read({}) -> Err(Interrupted) [INJECTED]", buf.len()));
                return Err(io::Error::from(io::ErrorKind::Interrupted));
            }
            Some(HardHit::Room(r)) => {
                placed_room = r;
                d.hard_fired += 1;
                d.faults_in_run += 1;
                fault_fired("short_read_placed");
            }
            _ => {}
        }
        let flen = d.files[self.file].len();
        let pos = (self.pos as usize).min(flen);
        let avail = flen - pos;
        let mut n = buf.len().min(avail).min(placed_room.max(1));
        let mut fault = 0u8;
        if let Some(c) = self.cut {
            let c = c as usize;
            if pos < c && pos + n > c {
                n = c - pos;
                fault = 4;
                fault_fired("split_at");
            }
        }
        if n == 0 {
            if !buf.is_empty() {
                d.eof_polls += 1;
                if d.eof_polls > 10_000 {
                    panic!("{HANG_MSG}: source polled at EOF more than 10000 times");
                }
            }
            d.ev(OP_READ, 0, 2);
            d.tr(|| format!("read({}) -> Ok(0) [EOF]", buf.len()));
            return Ok(0);
        }
        if self.faulty && self.benign.any() {
            let b = self.benign;
            if b.max_xfer > 0 && n > b.max_xfer {
                n = b.max_xfer;
                fault = 3;
                d.faults_in_run += 1;
                fault_fired("max_xfer_read");
            }
            if b.short_read + b.eintr_read > 0 {
                let v = d.ch.draw("io.r", 1000) as u32;
                if v >= 1000 - b.eintr_read.min(999) && d.eintr_run < 3 {
                    d.eintr_run += 1;
                    d.faults_in_run += 1;
                    fault_fired("eintr_read");
                    d.ev(OP_READ, 1, 1);
                    d.tr(|| format!("read({}) -> Err(Interrupted) [INJECTED]", buf.len()));
                    return Err(io::Error::from(io::ErrorKind::Interrupted));
                } else if v >= 1000 - (b.eintr_read + b.short_read).min(999) && n >= 2 {
                    n = 1 + d.ch.draw("io.r.k", (n - 1) as u64) as usize;
                    fault = 2;
                    d.faults_in_run += 1;
                    fault_fired("short_read");
                }
            }
        }
        d.eintr_run = 0;
        buf[..n].copy_from_slice(&d.files[self.file][pos..pos + n]);
        self.pos = (pos + n) as u64;
        if n >= 8 {
            d.frame_sized_transfers += 1;
        }
        d.ev(OP_READ, fault, 0);
        let p = self.pos;
        d.tr(|| format!("read({}) -> Ok({n}) pos={p}", buf.len()));
        Ok(n)
    }
}

/// How a BufRead source cuts its data into windows.
#[derive(Clone, Debug)]
pub enum Segmentation {
    /// one window with everything
    Whole,
    /// explicit window ends (absolute offsets, ascending); the rest in one window
    Cuts(Vec<usize>),
    /// every window has the given size
    Fixed(usize),
    /// window sizes drawn from the choice stream in 1..=max
    Random(usize),
}

/// BufRead source for the raw frame-stream reader.
pub struct SimBufRead {
    pub disk: Disk,
    pub data: Rc<Vec<u8>>,
    pub pos: usize,
    pub win_end: usize,
    pub seg: Segmentation,
    /// fill_buf call indices (0-based) that answer Interrupted once
    pub eintr_at: Vec<u64>,
    /// per-mille EINTR rate on fill_buf (drawn)
    pub eintr_rate: u32,
    pub fill_calls: u64,
    pub eintr_run: u32,
    /// the first byte offset of every window handed out, for probes
    pub windows: Vec<usize>,
}

impl SimBufRead {
    pub fn new(disk: &Disk, data: Vec<u8>, seg: Segmentation) -> Self {
        Self {
            disk: disk.clone(),
            data: Rc::new(data),
            pos: 0,
            win_end: 0,
            seg,
            eintr_at: Vec::new(),
            eintr_rate: 0,
            fill_calls: 0,
            eintr_run: 0,
            windows: Vec::new(),
        }
    }
    fn next_window(&mut self, d: &mut DiskState) {
        let len = self.data.len();
        let end = match &self.seg {
            Segmentation::Whole => len,
            Segmentation::Cuts(c) => c.iter().copied().find(|&e| e > self.pos).unwrap_or(len).min(len),
            Segmentation::Fixed(n) => (self.pos + (*n).max(1)).min(len),
            Segmentation::Random(max) => {
                let k = 1 + d.ch.draw("seg.k", (*max).max(1) as u64) as usize;
                (self.pos + k).min(len)
            }
        };
        self.win_end = end;
        self.windows.push(self.pos);
    }
}

impl BufRead for SimBufRead {
    fn fill_buf(&mut self) -> io::Result<&[u8]> {
        let disk = self.disk.clone();
        let mut guard = disk.0.borrow_mut();
        let d = &mut *guard;
        let call = self.fill_calls;
        self.fill_calls += 1;
        let mut inject = self.eintr_at.contains(&call);
        if !inject && self.eintr_rate > 0 && self.eintr_run < 3 {
            let v = d.ch.draw("io.fill", 1000) as u32;
            inject = v >= 1000 - self.eintr_rate.min(999);
        }
        if inject {
            self.eintr_run += 1;
            d.faults_in_run += 1;
            fault_fired("eintr_fill_buf");
            d.ev(OP_FILL, 1, 1);
            let p = self.pos;
            d.tr(|| format!("fill_buf#{call} -> Err(Interrupted) [INJECTED] pos={p}"));
            return Err(io::Error::from(io::ErrorKind::Interrupted));
        }
        self.eintr_run = 0;
        if self.pos >= self.win_end {
            self.next_window(d);
        }
        if self.pos >= self.data.len() {
            d.eof_polls += 1;
            if d.eof_polls > 10_000 {
                panic!("{HANG_MSG}: buffered source polled at EOF more than 10000 times");
            }
        }
        d.ev(OP_FILL, 0, if self.pos >= self.data.len() { 2 } else { 0 });
        let (p, e) = (self.pos, self.win_end);
        d.tr(|| format!("fill_buf#{call} -> {} bytes @{p}", e - p));
        if e - p >= 8 {
            d.frame_sized_transfers += 1;
        }
        Ok(&self.data[self.pos..self.win_end])
    }
    fn consume(&mut self, amt: usize) {
        assert!(self.pos + amt <= self.win_end, "harness: consume beyond window");
        self.pos += amt;
    }
}

impl Read for SimBufRead {
    fn read(&mut self, buf: &mut [u8]) -> io::Result<usize> {
        let n = {
            let s = self.fill_buf()?;
            let n = s.len().min(buf.len());
            buf[..n].copy_from_slice(&s[..n]);
            n
        };
        self.consume(n);
        Ok(n)
    }
}

pub fn probe_short_landed(_where_: &'static str) {
    probe(_where_);
}
