//! Workload generators: stream parameters, encoder options, signals, call histories.
//! Written so that smaller choice values mean simpler cases (0 = mono, silence, no faults ...).

use crate::monitor::probe;
use crate::rng::{Choices, Xoshiro};
use flac_codec::encode::{Options, Window};

#[derive(Clone, Copy, Debug, PartialEq, Eq)]
pub enum SeekPolicy {
    Off,
    Frames(usize),
    Seconds(u8),
}

#[derive(Clone, Copy, Debug, PartialEq)]
pub enum Win {
    Tukey(f32),
    Rect,
    Hann,
}

#[derive(Clone, Debug)]
pub struct Cfg {
    pub channels: u8,
    pub bps: u32,
    pub rate: u32,
    pub block: u16,
    pub lpc: Option<u8>,
    pub part: u32,
    pub mid_side: bool,
    pub fast: bool,
    pub win: Win,
    pub declare_total: bool,
    pub seek: SeekPolicy,
    /// None = no padding block; Some(n) = padding of n bytes
    pub padding: Option<u32>,
    /// junk bytes before the stream in the writer
    pub offset: usize,
    pub tags: usize,
}

impl Cfg {
    pub fn options(&self) -> Options {
        let mut o = Options::default()
            .block_size(self.block)
            .unwrap()
            .max_lpc_order(self.lpc)
            .unwrap()
            .max_partition_order(self.part)
            .unwrap()
            .mid_side(self.mid_side)
            .fast_channel_correlation(self.fast)
            .window(match self.win {
                Win::Tukey(p) => Window::Tukey(p),
                Win::Rect => Window::Rectangle,
                Win::Hann => Window::Hann,
            });
        o = match self.seek {
            SeekPolicy::Off => o.no_seektable(),
            SeekPolicy::Frames(n) => o.seektable_frames(n),
            SeekPolicy::Seconds(s) => o.seektable_seconds(s),
        };
        o = match self.padding {
            None => o.no_padding(),
            Some(n) => o.padding(n).unwrap(),
        };
        for i in 0..self.tags {
            o = o.tag("TITLE", format!("value {i}"));
        }
        o
    }
    pub fn bytes_per_sample(&self) -> usize {
        self.bps.div_ceil(8) as usize
    }
    pub fn describe(&self) -> String {
        format!(
            "ch={} bps={} rate={} block={} lpc={:?} part={} ms={} fast={} win={:?} declared={} seek={:?} pad={:?} off={}",
            self.channels,
            self.bps,
            self.rate,
            self.block,
            self.lpc,
            self.part,
            self.mid_side,
            self.fast,
            self.win,
            self.declare_total,
            self.seek,
            self.padding,
            self.offset
        )
    }
}

pub const RATES: &[u32] = &[
    44100, 0, 1, 8000, 16000, 22050, 24000, 32000, 48000, 88200, 96000, 176400, 192000, 11025, 12345, 65535, 65536,
    655350, 655351, 300000, 1048575, 1000, 255000, 256000, 5000,
];

pub fn draw_cfg(ch: &Choices, small: bool) -> Cfg {
    let channels = 1 + *ch.pick("cfg.ch", &[0u8, 1, 0, 1, 2, 3, 4, 5, 6, 7]);
    let bps = *ch.pick(
        "cfg.bps",
        &[16u32, 8, 24, 32, 12, 20, 4, 1, 2, 3, 5, 7, 9, 15, 17, 25, 31, 13, 28, 16, 16, 8, 24, 32],
    );
    let rate = *ch.pick("cfg.rate", RATES);
    let block = match ch.draw("cfg.blockmode", if small { 4 } else { 8 }) {
        0 => 16,
        1 => 16 + ch.draw("cfg.block.s", 48) as u16,
        2 => *ch.pick("cfg.block.c", &[192u16, 256, 576, 512, 1152, 128, 64, 32]),
        3 => 17 + ch.draw("cfg.block.m", 240) as u16,
        4 => *ch.pick("cfg.block.c2", &[1024u16, 2048, 4096, 2304, 4608]),
        5 => 257 + ch.draw("cfg.block.l", 2000) as u16,
        6 => *ch.pick("cfg.block.xl", &[8192u16, 16384, 32768, 65535, 40000]),
        _ => 16 + ch.draw("cfg.block.any", 500) as u16,
    };
    let lpc = match ch.draw("cfg.lpcmode", 5) {
        0 => None,
        1 => Some(1 + ch.draw("cfg.lpc.s", 4) as u8),
        2 => Some(*ch.pick("cfg.lpc.c", &[8u8, 12, 6, 2])),
        3 => Some(1 + ch.draw("cfg.lpc.any", 31) as u8), // 32 is exercised by C15 only (debug assertion, see DESIGN)
        _ => Some(*ch.pick("cfg.lpc.hi", &[16u8, 24, 31, 20])),
    };
    let part = *ch.pick("cfg.part", &[5u32, 0, 1, 2, 3, 4, 6, 8, 15, 7]);
    let mid_side = ch.draw("cfg.ms", 2) == 0;
    let fast = ch.draw("cfg.fast", 2) == 1;
    let win = match ch.draw("cfg.win", 6) {
        0 => Win::Tukey(0.5),
        1 => Win::Rect,
        2 => Win::Hann,
        3 => Win::Tukey(0.1),
        4 => Win::Tukey(0.9),
        _ => Win::Tukey(*ch.pick("cfg.win.p", &[0.0f32, 1.0, -1.0, 0.01, 0.999, f32::NAN, 2.0])),
    };
    let declare_total = ch.draw("cfg.declare", 2) == 1;
    let seek = match ch.draw("cfg.seek", 6) {
        0 => SeekPolicy::Off,
        1 => SeekPolicy::Frames(1),
        2 => SeekPolicy::Frames(2 + ch.draw("cfg.seek.n", 5) as usize),
        3 => SeekPolicy::Seconds(1),
        4 => SeekPolicy::Seconds(*ch.pick("cfg.seek.s", &[10u8, 2, 255])),
        _ => SeekPolicy::Frames(1),
    };
    let padding = match ch.draw("cfg.pad", 6) {
        0 => Some(4096),
        1 => None,
        2 => Some(1 + ch.draw("cfg.pad.s", 40) as u32),
        3 => Some(*ch.pick("cfg.pad.c", &[18u32, 22, 36, 40, 58, 100, 1000])),
        4 => Some(4096),
        _ => Some(20 + ch.draw("cfg.pad.m", 400) as u32),
    };
    let offset = *ch.pick("cfg.off", &[0usize, 0, 0, 1, 7, 100]);
    let tags = *ch.pick("cfg.tags", &[0usize, 0, 1, 3]);
    Cfg {
        channels,
        bps,
        rate,
        block,
        lpc,
        part,
        mid_side,
        fast,
        win,
        declare_total,
        seek,
        padding,
        offset,
        tags,
    }
}

pub fn sample_min(bps: u32) -> i64 {
    -(1i64 << (bps - 1))
}
pub fn sample_max(bps: u32) -> i64 {
    (1i64 << (bps - 1)) - 1
}
fn clampb(v: i64, bps: u32) -> i32 {
    v.clamp(sample_min(bps), sample_max(bps)) as i32
}

/// Generates `n` samples of one channel of family `fam` (see DESIGN Appendix C).
pub fn gen_channel(fam: u64, rng: &mut Xoshiro, n: usize, bps: u32) -> Vec<i32> {
    let lo = sample_min(bps);
    let hi = sample_max(bps);
    let span = (hi - lo + 1) as u64;
    let mut v = Vec::with_capacity(n);
    match fam {
        0 => v.resize(n, 0),
        1 => {
            let c = clampb(lo + (rng.next() % span) as i64, bps);
            v.resize(n, c);
        }
        2 => {
            // full-scale white noise
            for _ in 0..n {
                v.push((lo + (rng.next() % span) as i64) as i32);
            }
        }
        3 => {
            // low-amplitude noise 1..3 bits
            let a = 1 + rng.next() % 4;
            for _ in 0..n {
                v.push(clampb((rng.next() % (2 * a + 1)) as i64 - a as i64, bps));
            }
        }
        4 => {
            // alternating extremes
            for i in 0..n {
                v.push(if i % 2 == 0 { hi as i32 } else { lo as i32 });
            }
        }
        5 => {
            // ramp
            let step = 1 + (rng.next() % 5) as i64;
            let mut x = lo / 2;
            for _ in 0..n {
                v.push(clampb(x, bps));
                x += step;
                if x > hi {
                    x = lo;
                }
            }
        }
        6 => {
            // sine
            let amp = (hi as f64) * (0.1 + (rng.next() % 90) as f64 / 100.0);
            let w = 0.01 + (rng.next() % 300) as f64 / 300.0;
            for i in 0..n {
                v.push(clampb((amp * (w * i as f64).sin()) as i64, bps));
            }
        }
        7 => {
            // sparse impulses over silence
            v.resize(n, 0);
            let k = 1 + rng.next() % 4;
            for _ in 0..k {
                if n > 0 {
                    let i = (rng.next() % n as u64) as usize;
                    v[i] = (lo + (rng.next() % span) as i64) as i32;
                }
            }
        }
        8 => {
            // wasted bits: multiples of 2^k
            let k = if bps > 1 { 1 + rng.next() % (bps as u64 - 1).min(12) } else { 0 };
            let sub = bps - k as u32;
            let slo = sample_min(sub.max(1));
            let sspan = (1u64 << sub.max(1)) as u64;
            for _ in 0..n {
                let s = slo + (rng.next() % sspan) as i64;
                v.push(clampb(s << k, bps));
            }
        }
        9 => {
            // AR(2) resonant noise
            let (mut y1, mut y2) = (0f64, 0f64);
            let amp = (hi as f64) * 0.05;
            for _ in 0..n {
                let e = ((rng.next() % 2001) as f64 - 1000.0) / 1000.0 * amp;
                let y = 1.6 * y1 - 0.8 * y2 + e;
                y2 = y1;
                y1 = y;
                v.push(clampb(y as i64, bps));
            }
        }
        10 => {
            // polynomial (fixed order 2..4 territory)
            let a = (rng.next() % 7) as i64 - 3;
            let b = (rng.next() % 21) as i64 - 10;
            for i in 0..n as i64 {
                v.push(clampb(a * i * i / 8 + b * i + (rng.next() % 3) as i64 - 1, bps));
            }
        }
        11 => {
            // per-block change of family
            let mut i = 0;
            while i < n {
                let len = (16 + rng.next() % 64) as usize;
                let f = rng.next() % 11; // (nested families stay among the first eleven)
                let part = gen_channel(f, rng, len.min(n - i), bps);
                v.extend(part);
                i = v.len();
            }
        }
        14 => {
            // "tilted hiss": white noise with a very slight first-order correlation, so that the best
            // LP coefficients are tiny (large quantisation shifts) and LPC barely beats the fixed predictors
            let eps = [0.01f64, 0.02, 0.04, 0.06, -0.03, 0.005][(rng.next() % 6) as usize];
            let amp = ((hi as f64) * [0.02f64, 0.1, 0.4][(rng.next() % 3) as usize]).max(2.0);
            let mut prev = 0f64;
            for _ in 0..n {
                let w = ((rng.next() % 20001) as f64 - 10000.0) / 10000.0 * amp;
                let x = w + eps * prev;
                prev = x;
                v.push(clampb(x as i64, bps));
            }
        }
        15 => {
            // quiet odd-valued material with isolated steps of exactly half the representable range
            // (for 32-bit input a first difference of -2^31 or +2^31-1: the residual values at the very
            // edge of what the format can carry), nothing else in the block overflowing
            for _ in 0..n {
                v.push(clampb(((rng.next() % 9) as i64 - 4) * 2 + 1, bps));
            }
            let half = 1i64 << (bps - 1);
            let steps = 1 + (rng.next() % 2) as usize;
            for _ in 0..steps {
                if n >= 4 {
                    let i = 1 + (rng.next() as usize) % (n - 2);
                    let a = (rng.next() % 64) as i64 * 2 + 1;
                    match rng.next() % 3 {
                        0 => {
                            v[i] = clampb(a, bps);
                            v[i + 1] = clampb(a - half, bps);
                        }
                        1 => {
                            v[i] = clampb(a - half, bps);
                            v[i + 1] = clampb(a - 1, bps);
                        }
                        _ => {
                            // a level shift by exactly -half: two flat levels, so that a first-order
                            // predictor leaves one single residual of -2^(bps-1) and zeros elsewhere
                            let top = clampb(half / 2 + a, bps);
                            let bottom = clampb(half / 2 + a - half, bps);
                            for (j, x) in v.iter_mut().enumerate() {
                                *x = if j <= i { top } else { bottom };
                            }
                        }
                    }
                }
            }
        }
        12 => {
            // full scale constant (min or max)
            v.resize(n, if rng.next() % 2 == 0 { lo as i32 } else { hi as i32 });
        }
        _ => {
            // noise at half scale
            let a = (span / 4).max(1);
            for _ in 0..n {
                v.push(clampb((rng.next() % (2 * a)) as i64 - a as i64, bps));
            }
        }
    }
    v
}

pub const N_FAM: u64 = 16;

/// PCM, interleaved, plus the per-channel view
#[derive(Clone, Debug)]
pub struct Pcm {
    pub channels: usize,
    pub bps: u32,
    pub frames: usize,
    pub inter: Vec<i32>,
}

impl Pcm {
    pub fn chan(&self, c: usize) -> Vec<i32> {
        self.inter.iter().skip(c).step_by(self.channels).copied().collect()
    }
    pub fn chans(&self) -> Vec<Vec<i32>> {
        (0..self.channels).map(|c| self.chan(c)).collect()
    }
    pub fn bytes_per_sample(&self) -> usize {
        self.bps.div_ceil(8) as usize
    }
    pub fn to_bytes(&self, big: bool) -> Vec<u8> {
        samples_to_bytes(&self.inter, self.bytes_per_sample(), big)
    }
    pub fn md5(&self) -> [u8; 16] {
        md5::compute(self.to_bytes(false)).0
    }
}

pub fn samples_to_bytes(s: &[i32], bytes: usize, big: bool) -> Vec<u8> {
    let mut o = Vec::with_capacity(s.len() * bytes);
    for &x in s {
        let le = x.to_le_bytes();
        if big {
            for i in (0..bytes).rev() {
                o.push(le[i]);
            }
        } else {
            o.extend_from_slice(&le[..bytes]);
        }
    }
    o
}

pub fn draw_len(ch: &Choices, cfg: &Cfg, max_blocks: u64) -> usize {
    let block = cfg.block as u64;
    let order = cfg.lpc.unwrap_or(4) as u64;
    let k = match ch.draw("len.k", 4) {
        0 => 1,
        1 => 0,
        2 => 2,
        _ => ch.draw("len.kk", max_blocks + 1),
    };
    let r = match ch.draw("len.rmode", 5) {
        0 => 0,
        1 => 1 + ch.draw("len.r.short", (2 * order + 2).min(block - 1)),
        2 => block - 1,
        3 => 1,
        _ => ch.draw("len.r.any", block),
    };
    let n = k * block + r;
    let n = if n == 0 { 1 + ch.draw("len.nz", block) } else { n };
    if r >= 1 && r <= 2 * order {
        probe("final_block_le_2order");
    }
    if r == 1 {
        probe("final_block_1");
    }
    n as usize
}

pub fn draw_pcm(ch: &Choices, channels: u8, bps: u32, frames: usize) -> Pcm {
    let seed = ch.raw("sig.seed");
    let mut rng = Xoshiro::new(seed);
    let c = channels as usize;
    let stereo_mode = if c == 2 { ch.draw("sig.stereo", 5) } else { 0 };
    let mut chans: Vec<Vec<i32>> = Vec::new();
    for i in 0..c {
        let fam = ch.draw("sig.fam", N_FAM);
        if i == 1 && stereo_mode >= 2 {
            let l = &chans[0];
            let r: Vec<i32> = match stereo_mode {
                2 => l.clone(),
                3 => l.iter().map(|&x| clampb(-(x as i64), bps)).collect(),
                _ => l
                    .iter()
                    .map(|&x| clampb(x as i64 + (rng.next() % 3) as i64 - 1, bps))
                    .collect(),
            };
            chans.push(r);
        } else {
            chans.push(gen_channel(fam, &mut rng, frames, bps));
        }
    }
    let mut inter = Vec::with_capacity(frames * c);
    for f in 0..frames {
        for ch_ in &chans {
            inter.push(ch_[f]);
        }
    }
    Pcm {
        channels: c,
        bps,
        frames,
        inter,
    }
}

/// a partition of `total` units into call sizes; may contain zeros
pub fn draw_chunks(ch: &Choices, total: usize, unit_hint: usize) -> Vec<usize> {
    let mode = ch.draw("chunk.mode", 6);
    let mut out = Vec::new();
    let mut left = total;
    match mode {
        0 => out.push(total),
        1 => {
            let a = ch.draw("chunk.split", total as u64 + 1) as usize;
            out.push(a);
            out.push(total - a);
        }
        2 => {
            let k = 1 + ch.draw("chunk.fixed", (unit_hint.max(1) * 3) as u64) as usize;
            while left > 0 {
                let n = k.min(left);
                out.push(n);
                left -= n;
            }
        }
        3 => {
            while left > 0 {
                let n = 1 + ch.draw("chunk.small", 7) as usize;
                let n = n.min(left);
                out.push(n);
                left -= n;
                if out.len() > 4000 {
                    out.push(left);
                    left = 0;
                }
            }
        }
        _ => {
            while left > 0 {
                if ch.draw("chunk.empty", 8) == 7 {
                    out.push(0);
                    probe("empty_write");
                }
                let n = (1 + ch.draw("chunk.any", (unit_hint.max(1) * 2 + 3) as u64) as usize).min(left);
                out.push(n);
                left -= n;
                if out.len() > 4000 {
                    out.push(left);
                    left = 0;
                }
            }
        }
    }
    out
}
