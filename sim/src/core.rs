//! Run context shared by all scenarios.

use crate::disk::Disk;
use crate::rng::{Choices, mix};

#[derive(Clone, Copy, PartialEq, Eq, Debug)]
pub enum Tier {
    Quick,
    Thorough,
}

#[derive(Debug, Clone)]
pub struct Violation {
    pub class: String,
    pub msg: String,
}

pub type R = Result<(), Violation>;

pub fn viol<T>(class: impl Into<String>, msg: impl Into<String>) -> Result<T, Violation> {
    Err(Violation {
        class: class.into(),
        msg: msg.into(),
    })
}

/// a precondition of this property's oracle failed for a reason that belongs to another
/// property (e.g. C09 cannot judge a file whose encode failed — that is C01's matter)
#[derive(Debug)]
pub struct Foreign(pub String);

pub struct Ctx {
    pub prop: String,
    pub tier: Tier,
    pub ch: Choices,
    pub disk: Disk,
    pub trace: bool,
    /// fingerprints of the (sub-)evaluations of this run: (fingerprint, nontrivial)
    pub evals: Vec<(u64, bool)>,
    /// a written-out description of this run, if the worker asked for one
    pub want_sample: bool,
    pub sample: Option<String>,
    pub api_fp: u64,
    pub foreign: Option<String>,
    pub run: u64,
    /// events executed on sub-run disks
    pub extra_events: u64,
}

impl Ctx {
    pub fn new(prop: &str, tier: Tier, ch: Choices, trace: bool, run: u64) -> Self {
        let disk = Disk::new(&ch, trace);
        Ctx {
            prop: prop.to_string(),
            tier,
            ch,
            disk,
            trace,
            evals: Vec::new(),
            want_sample: false,
            sample: None,
            api_fp: 0,
            foreign: None,
            run,
            extra_events: 0,
        }
    }
    pub fn is(&self, p: &str) -> bool {
        self.prop == p
    }
    /// fold an API-level operation/result class into the run fingerprint
    pub fn api(&mut self, op: u64, res: u64) {
        self.api_fp = mix(self.api_fp, (op << 8) | res);
    }
    /// record one evaluation (a whole run, or one point of a sweep inside a run)
    pub fn eval(&mut self, extra: u64, nontrivial: bool) {
        let fp = mix(mix(self.api_fp, self.disk.fp()), extra);
        self.evals.push((fp, nontrivial));
    }
    /// record one evaluation that ran on its own disk
    pub fn eval_fp(&mut self, fp: u64, nontrivial: bool) {
        let fp = mix(self.api_fp, fp);
        self.evals.push((fp, nontrivial));
    }
    /// adopt the trace of a sub-run's disk (used when that sub-run is the violating one)
    pub fn adopt_trace(&mut self, sub: &Disk, title: &str) {
        if self.trace && !std::rc::Rc::ptr_eq(&sub.0, &self.disk.0) {
            let lines = sub.take_trace();
            self.disk.note(|| format!("---- {title}"));
            let mut d = self.disk.0.borrow_mut();
            if let Some(t) = d.trace.as_mut() {
                t.extend(lines.into_iter().map(|l| format!("   {l}")));
            }
        }
    }
    pub fn note(&self, f: impl FnOnce() -> String) {
        if self.trace {
            self.disk.note(f);
        }
    }
    pub fn describe(&mut self, f: impl FnOnce() -> String) {
        if self.want_sample || self.trace {
            let s = f();
            if self.trace {
                self.disk.note(|| format!("CASE {s}"));
            }
            if self.want_sample && self.sample.is_none() {
                self.sample = Some(s);
            }
        }
    }
    pub fn skip_foreign(&mut self, why: impl Into<String>) {
        self.foreign = Some(why.into());
    }
}

pub fn json_escape(s: &str) -> String {
    let mut o = String::with_capacity(s.len() + 2);
    for c in s.chars() {
        match c {
            '"' => o.push_str("\\\""),
            '\\' => o.push_str("\\\\"),
            '\n' => o.push_str("\\n"),
            '\r' => o.push_str("\\r"),
            '\t' => o.push_str("\\t"),
            c if (c as u32) < 0x20 => o.push_str(&format!("\\u{:04x}", c as u32)),
            c => o.push(c),
        }
    }
    o
}

pub fn hex(b: &[u8]) -> String {
    let mut s = String::with_capacity(b.len() * 2);
    for x in b {
        s.push_str(&format!("{x:02x}"));
    }
    s
}

pub fn short_vec<T: std::fmt::Debug>(v: &[T], max: usize) -> String {
    if v.len() <= max {
        format!("{v:?}")
    } else {
        format!("{:?}…(+{} more)", &v[..max], v.len() - max)
    }
}
