//! Monitors that are always on: panic capture, allocation high-water mark, counters.

use std::alloc::{GlobalAlloc, Layout, System};
use std::cell::RefCell;
use std::collections::BTreeMap;
use std::sync::atomic::{AtomicUsize, Ordering};

pub struct CountingAlloc;

static LIVE: AtomicUsize = AtomicUsize::new(0);
static PEAK: AtomicUsize = AtomicUsize::new(0);
static BIGGEST: AtomicUsize = AtomicUsize::new(0);

unsafe impl GlobalAlloc for CountingAlloc {
    unsafe fn alloc(&self, l: Layout) -> *mut u8 {
        let p = unsafe { System.alloc(l) };
        if !p.is_null() {
            let live = LIVE.fetch_add(l.size(), Ordering::Relaxed) + l.size();
            PEAK.fetch_max(live, Ordering::Relaxed);
            BIGGEST.fetch_max(l.size(), Ordering::Relaxed);
        }
        p
    }
    unsafe fn dealloc(&self, p: *mut u8, l: Layout) {
        unsafe { System.dealloc(p, l) };
        LIVE.fetch_sub(l.size(), Ordering::Relaxed);
    }
    unsafe fn alloc_zeroed(&self, l: Layout) -> *mut u8 {
        let p = unsafe { System.alloc_zeroed(l) };
        if !p.is_null() {
            let live = LIVE.fetch_add(l.size(), Ordering::Relaxed) + l.size();
            PEAK.fetch_max(live, Ordering::Relaxed);
            BIGGEST.fetch_max(l.size(), Ordering::Relaxed);
        }
        p
    }
    unsafe fn realloc(&self, p: *mut u8, l: Layout, new: usize) -> *mut u8 {
        let q = unsafe { System.realloc(p, l, new) };
        if !q.is_null() {
            if new >= l.size() {
                let live = LIVE.fetch_add(new - l.size(), Ordering::Relaxed) + (new - l.size());
                PEAK.fetch_max(live, Ordering::Relaxed);
                BIGGEST.fetch_max(new, Ordering::Relaxed);
            } else {
                LIVE.fetch_sub(l.size() - new, Ordering::Relaxed);
            }
        }
        q
    }
}

/// start measuring: peak is reset to the current live size
pub fn alloc_mark() -> usize {
    let live = LIVE.load(Ordering::Relaxed);
    PEAK.store(live, Ordering::Relaxed);
    BIGGEST.store(0, Ordering::Relaxed);
    live
}
/// bytes allocated above the mark at the high-water point
pub fn alloc_peak_since(mark: usize) -> usize {
    PEAK.load(Ordering::Relaxed).saturating_sub(mark)
}

#[derive(Default)]
pub struct Stats {
    pub faults: BTreeMap<&'static str, u64>,
    pub probes: BTreeMap<&'static str, u64>,
    pub notes: BTreeMap<String, u64>,
}

thread_local! {
    pub static STATS: RefCell<Stats> = RefCell::new(Stats::default());
    static LAST_PANIC: RefCell<Option<(String, String)>> = const { RefCell::new(None) };
}

pub fn fault_fired(kind: &'static str) {
    STATS.with(|s| *s.borrow_mut().faults.entry(kind).or_insert(0) += 1);
}
pub fn probe(name: &'static str) {
    STATS.with(|s| *s.borrow_mut().probes.entry(name).or_insert(0) += 1);
}
pub fn probe_n(name: &'static str, n: u64) {
    STATS.with(|s| *s.borrow_mut().probes.entry(name).or_insert(0) += n);
}
pub fn note(name: String) {
    STATS.with(|s| *s.borrow_mut().notes.entry(name).or_insert(0) += 1);
}

pub fn install_panic_hook() {
    std::panic::set_hook(Box::new(|info| {
        let loc = info
            .location()
            .map(|l| {
                let f = l.file();
                let root = std::env::var("VERIF_REPO").unwrap_or_else(|_| "/repo".into());
                if let Some(rel) = f.strip_prefix(&format!("{}/", root.trim_end_matches('/'))) {
                    return format!("{rel}:{}", l.line());
                }
                // normalise to a path relative to the crate under test when possible
                let f = f.rsplit_once("/src/").map(|(pre, post)| {
                    let krate = pre.rsplit('/').next().unwrap_or("");
                    if krate == "repo" || pre.ends_with("/repo") {
                        format!("src/{post}")
                    } else {
                        format!("{krate}/src/{post}")
                    }
                });
                format!("{}:{}", f.unwrap_or_else(|| l.file().to_string()), l.line())
            })
            .unwrap_or_else(|| "?".into());
        let msg = if let Some(s) = info.payload().downcast_ref::<&str>() {
            s.to_string()
        } else if let Some(s) = info.payload().downcast_ref::<String>() {
            s.clone()
        } else {
            "<non-string panic>".into()
        };
        if std::env::var_os("VERIF_BACKTRACE").is_some() {
            eprintln!("PANIC {loc}: {msg}\n{}", std::backtrace::Backtrace::force_capture());
        }
        LAST_PANIC.with(|p| {
            let mut p = p.borrow_mut();
            // keep the first panic of a run (a panic in Drop during unwinding would abort anyway)
            if p.is_none() {
                *p = Some((loc, msg));
            }
        });
    }));
}

pub fn take_panic() -> Option<(String, String)> {
    LAST_PANIC.with(|p| p.borrow_mut().take())
}
