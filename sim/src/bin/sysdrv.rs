//! Driver for the syscall-level fault engine (sysfault.py): runs ONE path-based API call of the crate
//! on a real file, deterministically from its arguments, and prints one RESULT line. The orchestrator
//! runs it under `strace -P <file> -e inject=...` so that the n-th write / read / lseek / openat on
//! that file fails, is interrupted, or the process is killed on entering it.
//!
//!   sysdrv encode <path> <seed> [stop]   create(path)+write+finalize through a writer front-end
//!                                        (stop: exit without finalize, after the last write call)
//!   sysdrv pcm <seed>                    md5 / count of the PCM `encode <seed>` writes, per frame prefix
//!   sysdrv update <path> <kind>          metadata::update(path, edit)
//!   sysdrv decode <path> <front>         open(path) + read to the end
//!   sysdrv verify <path> | info <path> | blocks <path> | frames <path>

use flac_codec::decode::{FlacByteReader, FlacChannelReader, FlacSampleReader};
use flac_codec::encode::{FlacByteWriter, FlacChannelWriter, FlacSampleWriter, Options};
use flac_codec::metadata::{self, BlockList, Padding, Picture, PictureType, VorbisComment};
use std::io::{Read, Write};

struct Rng(u64);
impl Rng {
    fn next(&mut self) -> u64 {
        // splitmix64
        self.0 = self.0.wrapping_add(0x9E3779B97F4A7C15);
        let mut z = self.0;
        z = (z ^ (z >> 30)).wrapping_mul(0xBF58476D1CE4E5B9);
        z = (z ^ (z >> 27)).wrapping_mul(0x94D049BB133111EB);
        z ^ (z >> 31)
    }
}

struct Params {
    front: u64,
    channels: u8,
    bps: u32,
    rate: u32,
    block: u16,
    declare: bool,
    seek: u64,
    padding: Option<u32>,
    frames: usize,
    chunk: usize,
    big_endian: bool,
}

fn params(seed: u64) -> (Params, Vec<i32>) {
    let mut r = Rng(seed);
    let p = Params {
        front: r.next() % 3,
        channels: 1 + (r.next() % 2) as u8,
        bps: [16u32, 8, 24, 12][(r.next() % 4) as usize],
        rate: [44100u32, 48000, 8000][(r.next() % 3) as usize],
        block: [256u16, 1024, 4096, 192][(r.next() % 4) as usize],
        declare: r.next() % 2 == 0,
        seek: r.next() % 3,
        padding: [None, Some(64u32), Some(4096)][(r.next() % 3) as usize],
        frames: 3000 + (r.next() % 20000) as usize,
        chunk: [1usize << 20, 4096, 1000, 333][(r.next() % 4) as usize],
        big_endian: r.next() % 2 == 0,
    };
    // noisy signal so that the output spans several 8 KiB BufWriter flushes
    let span = 1u64 << p.bps.min(14);
    let mut pcm = Vec::with_capacity(p.frames * p.channels as usize);
    let mut acc = 0i64;
    for _ in 0..p.frames * p.channels as usize {
        acc = (acc * 7 / 8) + (r.next() % span) as i64 - (span / 2) as i64;
        let lim = 1i64 << (p.bps - 1);
        pcm.push(acc.clamp(-lim, lim - 1) as i32);
    }
    (p, pcm)
}

fn options(p: &Params) -> Options {
    let mut o = Options::default().block_size(p.block).unwrap().overwrite();
    o = match p.seek {
        0 => o,
        1 => o.no_seektable(),
        _ => o.seektable_frames(1),
    };
    o = match p.padding {
        None => o.no_padding(),
        Some(n) => o.padding(n).unwrap(),
    };
    o.tag("TITLE", "sysfault")
}

fn to_bytes(pcm: &[i32], bps: u32, big: bool) -> Vec<u8> {
    let w = bps.div_ceil(8) as usize;
    let mut out = Vec::with_capacity(pcm.len() * w);
    for s in pcm {
        let b = s.to_le_bytes();
        if big {
            for k in (0..w).rev() {
                out.push(b[k]);
            }
        } else {
            out.extend_from_slice(&b[..w]);
        }
    }
    out
}

fn md5_i32(v: &[i32]) -> String {
    let mut bytes = Vec::with_capacity(v.len() * 4);
    for s in v {
        bytes.extend_from_slice(&s.to_le_bytes());
    }
    format!("{:x}", md5::compute(&bytes))
}

/// the same encode through `new(Cursor)` instead of `create(path)`; the bytes are then written to `path`
/// with a plain truncating write — the reference the path-based constructors are compared with
fn encode_mem(path: &str, seed: u64) {
    let (p, pcm) = params(seed);
    let total = if p.declare { Some(pcm.len() as u64) } else { None };
    let mut cur = std::io::Cursor::new(Vec::new());
    let r: Result<(), String> = (|| {
        match p.front {
            0 => {
                let mut w = FlacSampleWriter::new(&mut cur, options(&p), p.rate, p.bps, p.channels, total).map_err(|e| format!("{e:?}"))?;
                w.write(&pcm).map_err(|e| format!("{e:?}"))?;
                w.finalize().map_err(|e| format!("{e:?}"))
            }
            1 => {
                let bytes = to_bytes(&pcm, p.bps, p.big_endian);
                let tb = total.map(|_| bytes.len() as u64);
                if p.big_endian {
                    let mut w = FlacByteWriter::<_, flac_codec::byteorder::BigEndian>::new(&mut cur, options(&p), p.rate, p.bps, p.channels, tb).map_err(|e| format!("{e:?}"))?;
                    w.write_all(&bytes).map_err(|e| format!("{e:?}"))?;
                    w.finalize().map_err(|e| format!("{e:?}"))
                } else {
                    let mut w = FlacByteWriter::<_, flac_codec::byteorder::LittleEndian>::new(&mut cur, options(&p), p.rate, p.bps, p.channels, tb).map_err(|e| format!("{e:?}"))?;
                    w.write_all(&bytes).map_err(|e| format!("{e:?}"))?;
                    w.finalize().map_err(|e| format!("{e:?}"))
                }
            }
            _ => {
                let c = p.channels as usize;
                let mut w = FlacChannelWriter::new(&mut cur, options(&p), p.rate, p.bps, p.channels, total.map(|t| t / c as u64)).map_err(|e| format!("{e:?}"))?;
                let frames = pcm.len() / c;
                let chans: Vec<Vec<i32>> = (0..c).map(|k| (0..frames).map(|i| pcm[i * c + k]).collect()).collect();
                w.write(&chans).map_err(|e| format!("{e:?}"))?;
                w.finalize().map_err(|e| format!("{e:?}"))
            }
        }
    })();
    match r {
        Ok(()) => {
            std::fs::write(path, cur.into_inner()).expect("write reference");
            println!("RESULT ok");
        }
        Err(e) => println!("RESULT err {e}"),
    }
}

fn encode(path: &str, seed: u64, stop: bool) {
    let (p, pcm) = params(seed);
    println!(
        "PARAMS front={} ch={} bps={} rate={} block={} declare={} seek={} padding={:?} frames={} chunk={} be={}",
        p.front, p.channels, p.bps, p.rate, p.block, p.declare, p.seek, p.padding, p.frames, p.chunk, p.big_endian
    );
    let total = if p.declare { Some(pcm.len() as u64) } else { None };
    macro_rules! finish {
        ($w:expr) => {
            if stop {
                // the process ends here: no finalize, no Drop (the orchestrator only counts the
                // write calls made so far)
                std::mem::forget($w);
                println!("RESULT stopped");
                std::process::exit(0);
            } else {
                match $w.finalize() {
                    Ok(()) => println!("RESULT ok"),
                    Err(e) => println!("RESULT err stage=finalize {e:?}"),
                }
            }
        };
    }
    match p.front {
        0 => {
            let mut w = match FlacSampleWriter::create(path, options(&p), p.rate, p.bps, p.channels, total) {
                Ok(w) => w,
                Err(e) => return println!("RESULT err stage=create {e:?}"),
            };
            let step = (p.chunk / 4).max(1) * p.channels as usize;
            for c in pcm.chunks(step) {
                if let Err(e) = w.write(c) {
                    println!("RESULT err stage=write {e:?}");
                    let _ = std::io::stdout().flush();
                    return; // the writer is dropped normally
                }
            }
            finish!(w);
        }
        1 => {
            let bytes = to_bytes(&pcm, p.bps, p.big_endian);
            let tb = total.map(|_| bytes.len() as u64);
            macro_rules! run {
                ($e:ty) => {{
                    let mut w = match FlacByteWriter::<_, $e>::create(path, options(&p), p.rate, p.bps, p.channels, tb) {
                        Ok(w) => w,
                        Err(e) => return println!("RESULT err stage=create {e:?}"),
                    };
                    for c in bytes.chunks(p.chunk) {
                        if let Err(e) = w.write_all(c) {
                            println!("RESULT err stage=write {e:?}");
                            let _ = std::io::stdout().flush();
                            return; // the writer is dropped normally
                        }
                    }
                    finish!(w);
                }};
            }
            if p.big_endian {
                run!(flac_codec::byteorder::BigEndian)
            } else {
                run!(flac_codec::byteorder::LittleEndian)
            }
        }
        _ => {
            let c = p.channels as usize;
            let mut w = match FlacChannelWriter::create(path, options(&p), p.rate, p.bps, p.channels, total.map(|t| t / c as u64)) {
                Ok(w) => w,
                Err(e) => return println!("RESULT err stage=create {e:?}"),
            };
            let step = (p.chunk / 4).max(1);
            let frames = pcm.len() / c;
            let mut at = 0;
            while at < frames {
                let n = step.min(frames - at);
                let chans: Vec<Vec<i32>> = (0..c).map(|k| (at..at + n).map(|i| pcm[i * c + k]).collect()).collect();
                if let Err(e) = w.write(&chans) {
                    println!("RESULT err stage=write {e:?}");
                    let _ = std::io::stdout().flush();
                    return; // the writer is dropped normally
                }
                at += n;
            }
            finish!(w);
        }
    }
}

/// a small finished file with a comment and the given padding, for the update scenarios
fn mkfile(path: &str, padding: &str, frames: usize) {
    let mut r = Rng(frames as u64 ^ 0xABCD);
    let pcm: Vec<i32> = (0..frames * 2).map(|_| (r.next() % 2000) as i32 - 1000).collect();
    let mut o = Options::default().block_size(256).unwrap().overwrite().tag("TITLE", "sysfault").seektable_frames(4);
    o = match padding {
        "none" => o.no_padding(),
        n => o.padding(n.parse().unwrap()).unwrap(),
    };
    let mut w = FlacSampleWriter::create(path, o, 44100, 16, 2, Some(pcm.len() as u64)).unwrap();
    w.write(&pcm).unwrap();
    w.finalize().unwrap();
    println!("RESULT ok n={} md5={}", pcm.len(), md5_i32(&pcm));
}

fn pcm_info(seed: u64) {
    let (p, pcm) = params(seed);
    let c = p.channels as usize;
    let per = p.block as usize * c;
    // md5 of every whole-block prefix (what an interrupted encode may legitimately leave decodable)
    let mut k = 0;
    loop {
        let n = (k * per).min(pcm.len());
        println!("PREFIX blocks={k} samples={n} md5={}", md5_i32(&pcm[..n]));
        if n == pcm.len() {
            break;
        }
        k += 1;
    }
    println!("RESULT ok n={} md5={}", pcm.len(), md5_i32(&pcm));
}

fn update(path: &str, kind: &str) {
    let kind = kind.to_string();
    let r = metadata::update::<_, flac_codec::Error>(path, |bl: &mut BlockList| {
        match kind.as_str() {
            // fits the padding block: in place
            "grow_small" => bl.update::<VorbisComment>(|vc| vc.fields.push("COMMENT=abc".into())),
            // cannot fit: rebuild
            "grow_big" => bl.update::<VorbisComment>(|vc| vc.fields.push(format!("COMMENT={}", "x".repeat(20000)))),
            "shrink" => bl.update::<VorbisComment>(|vc| vc.fields.clear()),
            "add_picture" => {
                bl.insert(Picture {
                    picture_type: PictureType::FrontCover,
                    media_type: "image/png".into(),
                    description: "d".into(),
                    width: 1,
                    height: 1,
                    color_depth: 8,
                    colors_used: None,
                    data: vec![7; 9000],
                });
            }
            "drop_padding" => {
                bl.remove::<Padding>();
            }
            "callback_error" => return Err(flac_codec::Error::InvalidSeek),
            _ => {}
        }
        Ok(())
    });
    match r {
        Ok(rebuilt) => println!("RESULT ok {}", if rebuilt { "rebuilt" } else { "inplace" }),
        Err(e) => println!("RESULT err {e:?}"),
    }
}

fn decode(path: &str, front: &str) {
    let mut out: Vec<i32> = Vec::new();
    let r: Result<(), String> = (|| match front {
        "sample" => {
            let mut r = FlacSampleReader::open(path).map_err(|e| format!("open {e:?}"))?;
            r.read_to_end(&mut out).map(|_| ()).map_err(|e| format!("read {e:?}"))
        }
        "sample_fill" => {
            let mut r = FlacSampleReader::open(path).map_err(|e| format!("open {e:?}"))?;
            loop {
                let b = r.fill_buf().map_err(|e| format!("read {e:?}"))?;
                if b.is_empty() {
                    return Ok(());
                }
                let n = b.len();
                out.extend_from_slice(b);
                r.consume(n);
            }
        }
        "byte" => {
            let mut r = FlacByteReader::open(path, flac_codec::byteorder::LittleEndian).map_err(|e| format!("open {e:?}"))?;
            let w = {
                use flac_codec::metadata::Metadata;
                r.bits_per_sample().div_ceil(8) as usize
            };
            let mut b = Vec::new();
            let res = r.read_to_end(&mut b).map(|_| ()).map_err(|e| format!("read {e:?}"));
            for c in b.chunks_exact(w) {
                let mut v = [0u8; 4];
                v[..w].copy_from_slice(c);
                let s = i32::from_le_bytes(v);
                out.push((s << (32 - 8 * w as u32)) >> (32 - 8 * w as u32));
            }
            res
        }
        _ => {
            let mut r = FlacChannelReader::open(path).map_err(|e| format!("open {e:?}"))?;
            loop {
                let b = r.fill_buf().map_err(|e| format!("read {e:?}"))?;
                let n = b[0].len();
                if n == 0 {
                    return Ok(());
                }
                for i in 0..n {
                    for c in &b {
                        out.push(c[i]);
                    }
                }
                r.consume(n);
            }
        }
    })();
    match r {
        Ok(()) => println!("RESULT ok n={} md5={}", out.len(), md5_i32(&out)),
        Err(e) => println!("RESULT err n={} md5={} {e}", out.len(), md5_i32(&out)),
    }
}


/// C06 on the path-based constructors: `open(path)` promises a seekable reader. The whole stream is
/// decoded once; then, through a reader obtained from `open`, a fixed list of targets is sought and the
/// rest of the stream after each must equal the tail of the full decode; a target beyond the end must fail.
fn seekcheck(path: &str, front: &str) {
    use flac_codec::metadata::Metadata;
    use std::io::{Seek, SeekFrom};
    let r: Result<usize, String> = (|| {
        // the full decode, interleaved samples
        let mut full: Vec<i32> = Vec::new();
        let (ch, w) = {
            let mut r = FlacSampleReader::open(path).map_err(|e| format!("open {e:?}"))?;
            r.read_to_end(&mut full).map_err(|e| format!("full decode {e:?}"))?;
            (r.channel_count() as usize, r.bits_per_sample().div_ceil(8) as usize)
        };
        let total = (full.len() / ch) as u64;
        let targets = [total / 2, 0, total.saturating_sub(1), 1.min(total), total / 3, total, total / 2 + 1, total * 2 / 3];
        let mut done = 0;
        match front {
            "sample" => {
                let mut r = FlacSampleReader::open(path).map_err(|e| format!("open {e:?}"))?;
                for &t in &targets {
                    if t > total {
                        continue;
                    }
                    r.seek(t).map_err(|e| format!("seek({t}) of {total} failed: {e:?}"))?;
                    let mut out = Vec::new();
                    r.read_to_end(&mut out).map_err(|e| format!("read after seek({t}) {e:?}"))?;
                    if out[..] != full[t as usize * ch..] {
                        return Err(format!("seek({t}) of {total}: {} samples follow, not the tail of the stream", out.len()));
                    }
                    done += 1;
                }
                if r.seek(total + 1).is_ok() {
                    return Err(format!("seek({}) beyond the end of {total} returned Ok", total + 1));
                }
            }
            "byte" => {
                let mut r = FlacByteReader::open(path, flac_codec::byteorder::LittleEndian).map_err(|e| format!("open {e:?}"))?;
                let fullb: Vec<u8> = full.iter().flat_map(|s| s.to_le_bytes()[..w].to_vec()).collect();
                let unit = (ch * w) as u64;
                for &t in &targets {
                    if t > total {
                        continue;
                    }
                    // a byte position inside a PCM frame now and then
                    let pos = (t * unit + if t < total { t % unit } else { 0 }).min(fullb.len() as u64);
                    let got = r.seek(SeekFrom::Start(pos)).map_err(|e| format!("seek(Start({pos})) of {} failed: {e:?}", fullb.len()))?;
                    if got != pos {
                        return Err(format!("seek(Start({pos})) returned {got}"));
                    }
                    let mut out = Vec::new();
                    r.read_to_end(&mut out).map_err(|e| format!("read after seek({pos}) {e:?}"))?;
                    if out[..] != fullb[pos as usize..] {
                        return Err(format!("seek(Start({pos})) of {}: {} bytes follow, not the tail of the stream", fullb.len(), out.len()));
                    }
                    done += 1;
                }
                if r.seek(SeekFrom::Start(fullb.len() as u64 + unit)).is_ok() {
                    return Err("seek beyond the end returned Ok".to_string());
                }
            }
            _ => {
                let mut r = FlacChannelReader::open(path).map_err(|e| format!("open {e:?}"))?;
                for &t in &targets {
                    if t > total {
                        continue;
                    }
                    r.seek(t).map_err(|e| format!("seek({t}) of {total} failed: {e:?}"))?;
                    let mut out: Vec<i32> = Vec::new();
                    loop {
                        let b = r.fill_buf().map_err(|e| format!("read after seek({t}) {e:?}"))?;
                        let n = b[0].len();
                        if n == 0 {
                            break;
                        }
                        for i in 0..n {
                            for c in &b {
                                out.push(c[i]);
                            }
                        }
                        r.consume(n);
                    }
                    if out[..] != full[t as usize * ch..] {
                        return Err(format!("seek({t}) of {total}: {} samples follow, not the tail of the stream", out.len()));
                    }
                    done += 1;
                }
                if r.seek(total + 1).is_ok() {
                    return Err(format!("seek({}) beyond the end of {total} returned Ok", total + 1));
                }
            }
        }
        Ok(done)
    })();
    match r {
        Ok(n) => println!("RESULT ok seeks={n}"),
        Err(e) => println!("RESULT err {e}"),
    }
}

fn main() {
    let a: Vec<String> = std::env::args().collect();
    let cmd = a.get(1).map(|s| s.as_str()).unwrap_or("");
    match cmd {
        "encode" if a.get(4).map(|s| s == "mem").unwrap_or(false) => encode_mem(&a[2], a[3].parse().unwrap()),
        "encode" => encode(&a[2], a[3].parse().unwrap(), a.get(4).map(|s| s == "stop").unwrap_or(false)),
        "pcm" => pcm_info(a[2].parse().unwrap()),
        "mkfile" => mkfile(&a[2], &a[3], a[4].parse().unwrap()),
        "update" => update(&a[2], &a[3]),
        "decode" => decode(&a[2], &a[3]),
        "seekcheck" => seekcheck(&a[2], &a[3]),
        "verify" => match flac_codec::decode::verify(&a[2]) {
            Ok(v) => println!("RESULT ok {v:?}"),
            Err(e) => println!("RESULT err {e:?}"),
        },
        "info" => match metadata::info(&a[2]) {
            Ok(si) => println!("RESULT ok total={:?} md5={:?}", si.total_samples, si.md5.map(|m| m.iter().map(|b| format!("{b:02x}")).collect::<String>())),
            Err(e) => println!("RESULT err {e:?}"),
        },
        "blocks" => match metadata::blocks(&a[2]) {
            Ok(it) => {
                let mut n = 0;
                for b in it {
                    match b {
                        Ok(_) => n += 1,
                        Err(e) => return println!("RESULT err n={n} {e:?}"),
                    }
                }
                println!("RESULT ok n={n}");
            }
            Err(e) => println!("RESULT err open {e:?}"),
        },
        "blocklist" => match BlockList::open(&a[2]) {
            Ok(bl) => println!("RESULT ok n={}", bl.blocks().count()),
            Err(e) => println!("RESULT err {e:?}"),
        },
        "frames" => {
            // the crate's own structural iterator over a real file
            match flac_codec::stream::FrameIterator::open(&a[2]) {
                Ok(it) => {
                    let mut n = 0;
                    for f in it {
                        match f {
                            Ok(_) => n += 1,
                            Err(e) => return println!("RESULT err n={n} {e:?}"),
                        }
                    }
                    println!("RESULT ok n={n}");
                }
                Err(e) => println!("RESULT err open {e:?}"),
            }
        }
        _ => {
            eprintln!("usage: sysdrv encode|pcm|update|decode|verify|info|blocks|blocklist|frames ...");
            std::process::exit(2);
        }
    }
    let _ = std::io::stdout().flush();
}
