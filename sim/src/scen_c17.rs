//! C17 — the structural parser: re-serialisation identity and agreement with the streaming decoder.

use crate::core::*;
use crate::disk::Benign;
use crate::monitor::probe;
use crate::refflac;
use crate::scen_rt::Encoded;
use crate::world::*;
use flac_codec::stream::{ChannelAssignment, Frame, FrameIterator, SubframeWidth};

/// expands a structurally parsed frame to per-channel samples (after undoing decorrelation);
/// Err(text) if a subframe does not expand to exactly block-size samples
pub fn expand(frame: &Frame) -> Result<Vec<Vec<i64>>, String> {
    let n = u16::from(frame.header.block_size) as usize;
    let mut ch: Vec<Vec<i64>> = Vec::new();
    for (i, s) in frame.subframes.iter().enumerate() {
        let v: Vec<i64> = match s {
            SubframeWidth::Common(s) => s.decode().map(|x| x as i64).collect(),
            SubframeWidth::Wide(s) => s.decode().collect(),
        };
        if v.len() != n {
            return Err(format!("subframe {i} expands to {} samples, block size is {n}", v.len()));
        }
        ch.push(v);
    }
    // decorrelation is undone in the sample type the stream carries: 32-bit two's complement when
    // the side channel is a common (<= 32-bit) subframe, 64-bit only for the 33-bit side channel of
    // 32-bit streams. For valid frames nothing overflows; for checksum-valid malformed frames this
    // is the arithmetic "samples of that width" means.
    let wide = frame.subframes.iter().any(|s| matches!(s, SubframeWidth::Wide(_)));
    let w = |v: i64| -> i64 { if wide { v } else { v as i32 as i64 } };
    match frame.header.channel_assignment {
        ChannelAssignment::Independent(_) => {}
        ChannelAssignment::LeftSide => {
            let r: Vec<i64> = ch[0].iter().zip(&ch[1]).map(|(l, s)| w(l.wrapping_sub(*s))).collect();
            ch[1] = r;
        }
        ChannelAssignment::SideRight => {
            let l: Vec<i64> = ch[0].iter().zip(&ch[1]).map(|(s, r)| w(s.wrapping_add(*r))).collect();
            ch[0] = l;
        }
        ChannelAssignment::MidSide => {
            let mut l = Vec::with_capacity(n);
            let mut r = Vec::with_capacity(n);
            for (m, s) in ch[0].iter().zip(&ch[1]) {
                let mm = w(w(m.wrapping_shl(1)) | (s & 1));
                l.push(w(mm.wrapping_add(*s)) >> 1);
                r.push(w(mm.wrapping_sub(*s)) >> 1);
            }
            ch[0] = l;
            ch[1] = r;
        }
    }
    Ok(ch)
}

pub fn interleave32(ch: &[Vec<i64>]) -> Vec<i32> {
    let n = ch.first().map(|c| c.len()).unwrap_or(0);
    let mut o = Vec::with_capacity(n * ch.len());
    for i in 0..n {
        for c in ch {
            o.push(c[i] as i32);
        }
    }
    o
}

/// clean half: every frame of a finished file
pub fn check_clean(ctx: &mut Ctx, enc: &Encoded) -> R {
    let off = enc.cfg.offset;
    let ch = ctx.ch.clone();
    let rben = Benign::draw(&ch);
    let wben = Benign::draw(&ch);
    let f = ctx.disk.open(enc.file, rben).set_pos(off as u64);
    let it = match FrameIterator::new(wrap_src(f, draw_bufcap(&ch))) {
        Ok(i) => i,
        Err(e) => return viol("parsers-disagree", format!("FrameIterator cannot open a finished file: {e:?}")),
    };
    let si = it.metadata().streaminfo().clone();
    let mlen = it.metadata_len() as usize;
    let rs = refflac::parse_stream(&enc.media, off).ok();
    let mut pos_pcm = 0usize;
    let mut nframes = 0usize;
    let c = enc.cfg.channels as usize;
    let mut expect_off = mlen;
    for item in it {
        let (frame, offset) = match item {
            Ok(x) => x,
            Err(e) => return viol("parsers-disagree", format!("structural parser rejects frame {nframes} of a finished file: {e:?}")),
        };
        let offset = offset as usize;
        if offset != expect_off {
            return viol("reserialise-differs", format!("frame {nframes} reported at offset {offset}, expected {expect_off}"));
        }
        // re-serialise through benign write faults
        let out = ctx.disk.create(Vec::new());
        let mut w = ctx.disk.open(out, wben);
        if let Err(e) = frame.write(&si, &mut w) {
            return viol("reserialise-differs", format!("Frame::write failed: {e:?}"));
        }
        let bytes = ctx.disk.data(out);
        let orig = &enc.media[off + offset..(off + offset + bytes.len()).min(enc.media.len())];
        let canonical = rs
            .as_ref()
            .and_then(|r| r.frames.get(nframes))
            .map(|f| f.canonical() && f.start == off + offset)
            .unwrap_or(false);
        if canonical {
            probe("c17_canonical_frame");
            if bytes != orig {
                return viol(
                    "reserialise-differs",
                    format!("frame {nframes}: re-serialised {} bytes differ from the original at offset {offset}", bytes.len()),
                );
            }
        }
        expect_off = offset + bytes.len();
        // expansion
        let exp = match expand(&frame) {
            Ok(e) => e,
            Err(t) => return viol("parsers-disagree", format!("frame {nframes}: {t}")),
        };
        let n = exp[0].len();
        let got = interleave32(&exp);
        let want = &enc.pcm.inter[pos_pcm.min(enc.pcm.inter.len())..(pos_pcm + n * c).min(enc.pcm.inter.len())];
        if got != want {
            return viol("parsers-disagree", format!("frame {nframes}: structural expansion differs from the PCM the decoder returns"));
        }
        pos_pcm += n * c;
        nframes += 1;
    }
    if pos_pcm != enc.pcm.inter.len() {
        return viol("parsers-disagree", format!("structural parser saw {pos_pcm} samples, stream has {}", enc.pcm.inter.len()));
    }
    ctx.api(6, nframes as u64 & 0xf);
    Ok(())
}

/// the clean half over generator-made files: every block-size / sample-rate / bit-depth coding,
/// variable blocking, subframe alternatives the crate's encoder never emits — the structural parser must
/// accept every frame, report its offset, re-serialise it to the same bytes (the coding chosen by the
/// foreign writer must survive) and expand it to the PCM
pub fn run_gen(ctx: &mut Ctx) -> R {
    let ch = ctx.ch.clone();
    let Some(fx) = crate::scen_rd::make_foreign_fixture(&ch, true) else {
        ctx.skip_foreign("generator-made file could not be built");
        return Ok(());
    };
    ctx.describe(|| format!("generator-made file {}B table={:?} ch={} bits={} frames={}", fx.bytes.len(), fx.shape, fx.pcm.channels, fx.pcm.bps, fx.pcm.frames));
    let file = ctx.disk.create(fx.bytes.clone());
    let enc = Encoded { cfg: fx.cfg, pcm: fx.pcm, kind: crate::world::WKind::Sample, file, media: fx.bytes, pre_finalize: Vec::new() };
    let r = check_clean(ctx, &enc);
    let nt = ctx.disk.0.borrow().frame_sized_transfers > 0;
    ctx.eval(0, nt);
    r
}
