//! One integer decides everything: the choice stream.
//!
//! Every decision of a run is obtained through `Choices::draw(label, n)`.
//! In generate mode values come from a xoshiro256** PRNG seeded from
//! (VERIF_SEED, property, scenario, run index); in replay mode they come from a
//! recorded list (0 once the list is exhausted). Both modes append to the log,
//! so a run is a pure function of its log and of the code under test.

use std::cell::RefCell;
use std::rc::Rc;

#[derive(Clone)]
pub struct Xoshiro {
    s: [u64; 4],
}

fn splitmix(x: &mut u64) -> u64 {
    *x = x.wrapping_add(0x9E3779B97F4A7C15);
    let mut z = *x;
    z = (z ^ (z >> 30)).wrapping_mul(0xBF58476D1CE4E5B9);
    z = (z ^ (z >> 27)).wrapping_mul(0x94D049BB133111EB);
    z ^ (z >> 31)
}

impl Xoshiro {
    pub fn new(seed: u64) -> Self {
        let mut x = seed;
        let s = [
            splitmix(&mut x),
            splitmix(&mut x),
            splitmix(&mut x),
            splitmix(&mut x),
        ];
        Self { s }
    }
    pub fn next(&mut self) -> u64 {
        let r = self.s[1].wrapping_mul(5).rotate_left(7).wrapping_mul(9);
        let t = self.s[1] << 17;
        self.s[2] ^= self.s[0];
        self.s[3] ^= self.s[1];
        self.s[1] ^= self.s[2];
        self.s[0] ^= self.s[3];
        self.s[2] ^= t;
        self.s[3] = self.s[3].rotate_left(45);
        r
    }
}

pub fn hash_str(s: &str) -> u64 {
    // FNV-1a
    let mut h: u64 = 0xcbf29ce484222325;
    for b in s.bytes() {
        h ^= b as u64;
        h = h.wrapping_mul(0x100000001b3);
    }
    h
}

pub fn mix(a: u64, b: u64) -> u64 {
    let mut x = a ^ b.wrapping_mul(0x9E3779B97F4A7C15).rotate_left(31);
    splitmix(&mut x)
}

enum Mode {
    Gen(Xoshiro),
    Replay { vals: Vec<u64>, pos: usize },
}

pub struct ChoicesInner {
    mode: Mode,
    pub log: Vec<(&'static str, u64, u64)>,
    pub overrun: bool,
}

/// Shared handle: the scenario and the simulated disk draw from the same stream.
#[derive(Clone)]
pub struct Choices(Rc<RefCell<ChoicesInner>>);

impl Choices {
    pub fn generate(seed: u64) -> Self {
        Choices(Rc::new(RefCell::new(ChoicesInner {
            mode: Mode::Gen(Xoshiro::new(seed)),
            log: Vec::new(),
            overrun: false,
        })))
    }
    pub fn replay(vals: Vec<u64>) -> Self {
        Choices(Rc::new(RefCell::new(ChoicesInner {
            mode: Mode::Replay { vals, pos: 0 },
            log: Vec::new(),
            overrun: false,
        })))
    }
    /// uniform value in 0..n  (n >= 1)
    pub fn draw(&self, label: &'static str, n: u64) -> u64 {
        let n = n.max(1);
        let mut c = self.0.borrow_mut();
        let v = match &mut c.mode {
            Mode::Gen(r) => {
                if n == 1 {
                    0
                } else {
                    r.next() % n
                }
            }
            Mode::Replay { vals, pos } => {
                let v = if *pos < vals.len() { vals[*pos] } else { 0 };
                *pos += 1;
                if v >= n { n - 1 } else { v }
            }
        };
        if c.log.len() < 2_000_000 {
            c.log.push((label, n, v));
        } else {
            c.overrun = true;
        }
        v
    }
    /// raw 64-bit value (for sub-seeds); shrinks toward 0
    pub fn raw(&self, label: &'static str) -> u64 {
        self.draw(label, u64::MAX)
    }
    pub fn range(&self, label: &'static str, lo: u64, hi_incl: u64) -> u64 {
        lo + self.draw(label, hi_incl - lo + 1)
    }
    /// true with probability num/den; false is the "simple" value
    pub fn chance(&self, label: &'static str, num: u64, den: u64) -> bool {
        if num == 0 {
            return false;
        }
        // value 0 must mean "false" so that shrinking removes the event
        self.draw(label, den) >= den - num.min(den)
    }
    pub fn pick<'a, T>(&self, label: &'static str, items: &'a [T]) -> &'a T {
        &items[self.draw(label, items.len() as u64) as usize]
    }
    pub fn values(&self) -> Vec<u64> {
        self.0.borrow().log.iter().map(|t| t.2).collect()
    }
    pub fn log_len(&self) -> usize {
        self.0.borrow().log.len()
    }
    pub fn labelled(&self) -> Vec<(&'static str, u64, u64)> {
        self.0.borrow().log.clone()
    }
}
