//! Reader histories: C07 (exactly-once, in-order delivery however consumed) and C06 (seeking).
//! A reader front-end is driven by a drawn history of read / fill / consume / seek operations
//! and compared, operation by operation, with a cursor over the PCM model.

use crate::core::*;
use crate::disk::{Benign, SimFile};
use crate::genr::*;
use crate::monitor::probe;
use crate::rng::Choices;
use crate::world::*;
use flac_codec::byteorder::{BigEndian, Endianness, LittleEndian};
use flac_codec::decode::{FlacByteReader, FlacChannelReader, FlacSampleReader};
use flac_codec::encode::{FlacSampleWriter, SeekTableInterval};
use flac_codec::metadata::{BlockList, SeekPoint, SeekTable};
use std::io::{BufRead, Cursor, Read, Seek, SeekFrom};

#[derive(Clone, Copy, Debug, PartialEq, Eq)]
pub enum Front {
    ByteLE,
    ByteBE,
    Sample,
    SampleIter,
    Channel,
}

#[derive(Debug, Clone, Copy)]
pub enum SeekReq {
    Start(u64),
    Cur(i64),
    End(i64),
    /// channel-independent sample index
    Frame(u64),
}

/// uniform face over the reader front-ends; data is exchanged as flat i32 items
/// (bytes for byte readers, interleaved samples otherwise)
trait Rd {
    fn read(&mut self, n: usize) -> Result<Vec<i32>, String>;
    fn fill(&mut self) -> Result<Vec<i32>, String>;
    /// k in items
    fn consume(&mut self, k: usize);
    fn seek(&mut self, r: SeekReq) -> Result<Option<u64>, String>;
    fn to_end(&mut self) -> Result<Vec<i32>, String>;
}

struct ByteRd<S: Read + Seek, E: Endianness>(FlacByteReader<S, E>);
impl<S: Read + Seek, E: Endianness> Rd for ByteRd<S, E> {
    fn read(&mut self, n: usize) -> Result<Vec<i32>, String> {
        let mut b = vec![0u8; n];
        let k = self.0.read(&mut b).map_err(|e| format!("{e:?}"))?;
        Ok(b[..k].iter().map(|x| *x as i32).collect())
    }
    fn fill(&mut self) -> Result<Vec<i32>, String> {
        self.0.fill_buf().map(|b| b.iter().map(|x| *x as i32).collect()).map_err(|e| format!("{e:?}"))
    }
    fn consume(&mut self, k: usize) {
        self.0.consume(k)
    }
    fn seek(&mut self, r: SeekReq) -> Result<Option<u64>, String> {
        let sf = match r {
            SeekReq::Start(p) => SeekFrom::Start(p),
            SeekReq::Cur(o) => SeekFrom::Current(o),
            SeekReq::End(o) => SeekFrom::End(o),
            SeekReq::Frame(_) => unreachable!(),
        };
        self.0.seek(sf).map(Some).map_err(|e| format!("{e:?}"))
    }
    fn to_end(&mut self) -> Result<Vec<i32>, String> {
        let mut v = Vec::new();
        self.0.read_to_end(&mut v).map_err(|e| format!("{e:?}"))?;
        Ok(v.iter().map(|x| *x as i32).collect())
    }
}

struct SampleRd<S: Read + Seek>(FlacSampleReader<S>);
impl<S: Read + Seek> Rd for SampleRd<S> {
    fn read(&mut self, n: usize) -> Result<Vec<i32>, String> {
        let mut b = vec![0i32; n];
        let k = self.0.read(&mut b).map_err(|e| format!("{e:?}"))?;
        b.truncate(k);
        Ok(b)
    }
    fn fill(&mut self) -> Result<Vec<i32>, String> {
        self.0.fill_buf().map(|b| b.to_vec()).map_err(|e| format!("{e:?}"))
    }
    fn consume(&mut self, k: usize) {
        self.0.consume(k)
    }
    fn seek(&mut self, r: SeekReq) -> Result<Option<u64>, String> {
        let SeekReq::Frame(f) = r else { unreachable!() };
        self.0.seek(f).map(|()| None).map_err(|e| format!("{e:?}"))
    }
    fn to_end(&mut self) -> Result<Vec<i32>, String> {
        let mut v = Vec::new();
        self.0.read_to_end(&mut v).map_err(|e| format!("{e:?}"))?;
        Ok(v)
    }
}

struct ChannelRd<S: Read + Seek> {
    r: FlacChannelReader<S>,
    c: usize,
}
impl<S: Read + Seek> Rd for ChannelRd<S> {
    fn read(&mut self, _n: usize) -> Result<Vec<i32>, String> {
        self.fill()
    }
    fn fill(&mut self) -> Result<Vec<i32>, String> {
        let chs = self.r.fill_buf().map_err(|e| format!("{e:?}"))?;
        if chs.len() != self.c {
            return Err(format!("DELIVERY: {} channels returned, stream has {}", chs.len(), self.c));
        }
        let n = chs[0].len();
        if chs.iter().any(|c| c.len() != n) {
            return Err("DELIVERY: ragged channels".into());
        }
        let mut v = Vec::with_capacity(n * self.c);
        for i in 0..n {
            for c in &chs {
                v.push(c[i]);
            }
        }
        Ok(v)
    }
    fn consume(&mut self, k: usize) {
        self.r.consume(k / self.c)
    }
    fn seek(&mut self, r: SeekReq) -> Result<Option<u64>, String> {
        let SeekReq::Frame(f) = r else { unreachable!() };
        self.r.seek(f).map(|()| None).map_err(|e| format!("{e:?}"))
    }
    fn to_end(&mut self) -> Result<Vec<i32>, String> {
        let mut v = Vec::new();
        loop {
            let b = self.fill()?;
            if b.is_empty() {
                return Ok(v);
            }
            let k = b.len();
            v.extend(b);
            self.consume(k);
        }
    }
}

#[derive(Clone, Copy, Debug, PartialEq, Eq)]
pub enum TableShape {
    None,
    EveryFrame,
    Sparse,
    Seconds,
    /// sparse points followed by placeholder points, inserted the way a user would (update_file)
    Placeholders,
    /// a user-made table whose first defined point lies after the start of the stream
    LateFirst,
    /// a table holding nothing but placeholder points (or no points at all)
    OnlyPlaceholders,
}

pub struct Fixture {
    pub cfg: Cfg,
    pub pcm: Pcm,
    pub bytes: Vec<u8>,
    pub shape: TableShape,
    /// STREAMINFO's total-samples field is 0 (length unknown, as in a pipe-encoded file)
    pub total_unknown: bool,
}

/// a finished file with the requested seek-table shape, built on perfect in-memory I/O
pub fn make_fixture(ch: &Choices, seekable: bool) -> Option<Fixture> {
    let mut cfg = draw_cfg(ch, true);
    cfg.block = 16 + ch.draw("rd.block", 100) as u16;
    cfg.declare_total = true;
    let frames = {
        let k = 1 + ch.draw("rd.blocks", 6);
        let r = ch.draw("rd.rem", cfg.block as u64);
        (k * cfg.block as u64 + r) as usize
    };
    // non-periodic data so that a misplaced position cannot go unnoticed
    let seed = ch.raw("rd.sig");
    let mut rng = crate::rng::Xoshiro::new(seed ^ 0x5bd1e995);
    let mut inter = Vec::with_capacity(frames * cfg.channels as usize);
    for _ in 0..frames * cfg.channels as usize {
        let span = 1u64 << cfg.bps.min(16);
        let v = (rng.next() % span) as i64 - (span / 2) as i64;
        inter.push(v.clamp(sample_min(cfg.bps), sample_max(cfg.bps)) as i32);
    }
    let pcm = Pcm {
        channels: cfg.channels as usize,
        bps: cfg.bps,
        frames,
        inter,
    };
    let shape = if seekable {
        *ch.pick(
            "rd.table",
            &[
                TableShape::EveryFrame,
                TableShape::None,
                TableShape::Sparse,
                TableShape::Seconds,
                TableShape::Placeholders,
                TableShape::LateFirst,
                TableShape::OnlyPlaceholders,
            ],
        )
    } else {
        TableShape::None
    };
    cfg.seek = match shape {
        TableShape::None | TableShape::Placeholders | TableShape::LateFirst | TableShape::OnlyPlaceholders => SeekPolicy::Off,
        TableShape::EveryFrame => SeekPolicy::Frames(1),
        TableShape::Sparse => SeekPolicy::Frames(2 + ch.draw("rd.sparse", 3) as usize),
        TableShape::Seconds => {
            // choose the rate so that one second is a few blocks
            cfg.rate = (cfg.block as u32) * (1 + ch.draw("rd.sec.blocks", 3) as u32) + ch.draw("rd.sec.odd", 7) as u32;
            SeekPolicy::Seconds(1)
        }
    };
    cfg.padding = Some(*ch.pick("rd.pad", &[400u32, 4096, 60]));
    let mut cur = Cursor::new(Vec::new());
    {
        let mut w = FlacSampleWriter::new(&mut cur, cfg.options(), cfg.rate, cfg.bps, cfg.channels, Some(pcm.inter.len() as u64)).ok()?;
        w.write(&pcm.inter).ok()?;
        w.finalize().ok()?;
    }
    let mut bytes = cur.into_inner();
    if matches!(shape, TableShape::Placeholders | TableShape::LateFirst | TableShape::OnlyPlaceholders) {
        let k = if shape == TableShape::Placeholders { 2 + ch.draw("rd.ph.every", 3) as usize } else { 1 + ch.draw("rd.ph.every", 2) as usize };
        let t = flac_codec::encode::generate_seektable(Cursor::new(&bytes), SeekTableInterval::Frames(k.try_into().unwrap())).ok()?;
        let mut pts: Vec<SeekPoint> = t.points.iter().cloned().collect();
        match shape {
            TableShape::LateFirst => {
                let drop = (1 + ch.draw("rd.late.drop", 3) as usize).min(pts.len().saturating_sub(1));
                pts.drain(0..drop);
                probe("c06_table_first_point_after_start");
            }
            TableShape::OnlyPlaceholders => {
                pts.clear();
                probe("c06_table_only_placeholders");
            }
            _ => {}
        }
        let nph = if shape == TableShape::OnlyPlaceholders { ch.draw("rd.ph.n", 3) } else { 1 + ch.draw("rd.ph.n", 3) };
        for _ in 0..nph {
            pts.push(SeekPoint::Placeholder);
        }
        let table = SeekTable {
            points: pts.try_into().ok()?,
        };
        let mut rebuilt: Vec<u8> = Vec::new();
        let mut orig = Cursor::new(bytes.clone());
        let r = flac_codec::metadata::update_file::<_, _, flac_codec::Error>(
            &mut orig,
            || Ok(&mut rebuilt),
            |bl: &mut BlockList| {
                bl.insert(table);
                Ok(())
            },
        )
        .ok()?;
        bytes = if r { rebuilt } else { orig.into_inner() };
        probe("c06_table_with_placeholders");
    }
    Some(Fixture { cfg, pcm, bytes, shape, total_unknown: false })
}

/// a finished file that did not come from the crate's encoder: generator-made frames (refflac's frame
/// writer) whose block size changes from frame to frame (variable blocking strategy, coded sample
/// numbers) or a fixed-blocking stream, behind a hand-made STREAMINFO and seek table of the drawn shape
pub fn make_foreign_fixture(ch: &Choices, seekable: bool) -> Option<Fixture> {
    make_foreign_fixture_sized(ch, seekable, false)
}

/// `small`: 1-3 frames of 16-40 samples, at most 2 channels mostly (for exhaustive damage enumeration)
pub fn make_foreign_fixture_sized(ch: &Choices, seekable: bool, small: bool) -> Option<Fixture> {
    use crate::refflac;
    use crate::scen_synth::make_frame_from;
    use flac_codec::metadata::{Block, Padding, Streaminfo, write_blocks};
    let mut rng = crate::rng::Xoshiro::new(ch.raw("rdg.seed"));
    let (bps, bps_code) = *ch.pick("rdg.bps", &[(16u32, 4u8), (8, 1), (12, 2), (20, 5), (24, 6), (32, 7)]);
    let assign = ch.draw("rdg.assign", 8);
    let channels: usize = match assign {
        0 => 1,
        1..=4 => 2,
        _ if small => 2 + (rng.next() % 2) as usize,
        _ => 3 + (rng.next() % 6) as usize,
    };
    let variable = ch.draw("rdg.variable", 3) != 0;
    let nframes = if small { 1 + ch.draw("rdg.frames", 3) as usize } else { 2 + ch.draw("rdg.frames", 6) as usize };
    let base = 16 + ch.draw("rdg.block", if small { 24 } else { 100 }) as usize;
    let mut sizes: Vec<usize> = (0..nframes)
        .map(|_| if variable { *ch.pick("rdg.size", if small { &[16usize, 17, 32, 20, 24, 40, 23, 18] } else { &[16usize, 17, 32, 100, 192, 64, 23, 48] }) } else { base })
        .collect();
    if variable && ch.draw("rdg.size.any", 2) == 1 {
        for s in sizes.iter_mut() {
            *s = 16 + (rng.next() % if small { 24 } else { 120 }) as usize;
        }
    }
    // every entry of the block-size code table, so that the decoder's table is exercised
    // independently of the encoder's
    let table_sizes = !small && ch.draw("rdg.size.table", 3) == 0;
    let mut channels = channels;
    let mut assign = assign;
    if table_sizes {
        let t = *ch.pick("rdg.size.t", &[192usize, 576, 1152, 2304, 4608, 256, 512, 1024, 2048, 4096, 8192, 16384, 32768]);
        sizes.truncate(3);
        for s in sizes.iter_mut() {
            *s = if variable { *ch.pick("rdg.size.t2", &[192usize, 576, 1152, 2304, 4608, 256, 512, 1024, 2048, 4096]) } else { t };
        }
        if channels > 2 {
            channels = 2;
            assign = 4;
        }
        probe("rd_block_sizes_from_code_table");
    }
    let base = if table_sizes { sizes[0] } else { base };
    // every way of coding the sample rate in a frame header
    let (rate, rate_code, rate_ext): (u32, u8, Option<u32>) = *ch.pick(
        "rdg.rate",
        &[
            (44100u32, 9u8, None),
            (88200, 1, None),
            (176400, 2, None),
            (192000, 3, None),
            (8000, 4, None),
            (16000, 5, None),
            (22050, 6, None),
            (24000, 7, None),
            (32000, 8, None),
            (48000, 10, None),
            (96000, 11, None),
            (1000, 12, Some(1)),
            (255000, 12, Some(255)),
            (65535, 13, Some(65535)),
            (12345, 13, Some(12345)),
            (655350, 14, Some(65535)),
            (22050, 14, Some(2205)),
            (44100, 0, None),
            (7, 13, Some(7)),
        ],
    );
    let bps_from_streaminfo = ch.draw("rdg.bps.si", 6) == 5;
    if bps_from_streaminfo {
        probe("rd_depth_coded_as_see_streaminfo");
    }
    // the last frame may be short
    if ch.draw("rdg.last.short", 2) == 1 {
        *sizes.last_mut().unwrap() = 1 + ch.draw("rdg.last", base.max(17) as u64 - 1) as usize;
    }
    // mostly moderate amplitudes (so that every predictor stays usable), sometimes the full scale of the
    // declared depth (side channels of 25 and 33 bits, reconstruction near the limits)
    let span = if ch.draw("rdg.fullscale", 4) == 3 {
        probe("rd_full_scale_samples");
        1u64 << bps
    } else {
        1u64 << bps.min(16)
    };
    let mut frames: Vec<Vec<u8>> = Vec::new();
    let mut inter: Vec<i32> = Vec::new();
    let mut pos = 0u64;
    for (k, n) in sizes.iter().enumerate() {
        // non-periodic data so that a misplaced position cannot go unnoticed
        let chans: Vec<Vec<i64>> = (0..channels)
            .map(|_| (0..*n).map(|_| ((rng.next() % span) as i64 - (span / 2) as i64).clamp(sample_min(bps), sample_max(bps))).collect())
            .collect();
        let number = if variable { pos } else { k as u64 };
        let mut m = make_frame_from(ch, &mut rng, bps, bps_code, assign, chans, number)?;
        m.spec.bend.variable = variable;
        m.spec.rate_code = rate_code;
        m.spec.bend.rate_ext = rate_ext;
        if bps_from_streaminfo {
            m.spec.bps_code = 0; // "take the bit depth from STREAMINFO": legal inside a file
        }
        frames.push(refflac::write_frame(&m.spec));
        for i in 0..*n {
            for c in &m.chans {
                inter.push(c[i] as i32);
            }
        }
        pos += *n as u64;
    }
    let total = pos;
    // the length may be unknown to the header (a stream encoded to a pipe): everything but end-relative
    // seeks must still work
    let total_unknown = !small && ch.draw("rdg.total.unknown", 5) == 4;
    if total_unknown {
        probe("rd_total_samples_unknown");
    }
    let pcm = Pcm { channels, bps, frames: total as usize, inter };
    let body = &sizes[..sizes.len() - 1];
    let (minb, maxb) = if variable {
        (*body.iter().min().unwrap_or(&16) as u16, *sizes.iter().max().unwrap().max(&16) as u16)
    } else {
        (base as u16, base as u16)
    };
    let si = Streaminfo {
        minimum_block_size: minb,
        maximum_block_size: maxb.max(minb),
        minimum_frame_size: None,
        maximum_frame_size: None,
        sample_rate: rate,
        channels: std::num::NonZero::new(channels as u8).unwrap(),
        bits_per_sample: bps.try_into().ok()?,
        total_samples: if total_unknown { None } else { std::num::NonZero::new(total) },
        md5: Some(refflac::pcm_md5(&pcm.inter, bps)),
    };
    let shape = if seekable {
        *ch.pick(
            "rdg.table",
            &[TableShape::EveryFrame, TableShape::None, TableShape::Sparse, TableShape::Placeholders, TableShape::LateFirst, TableShape::OnlyPlaceholders],
        )
    } else {
        *ch.pick("rdg.table.ns", &[TableShape::None, TableShape::EveryFrame])
    };
    let mut pts: Vec<SeekPoint> = Vec::new();
    {
        let every = match shape {
            TableShape::EveryFrame => 1,
            TableShape::Sparse | TableShape::Placeholders | TableShape::LateFirst => 2 + ch.draw("rdg.sparse", 3) as usize,
            _ => 0,
        };
        let (mut so, mut bo) = (0u64, 0u64);
        for (k, (n, f)) in sizes.iter().zip(&frames).enumerate() {
            if every > 0 && k % every == 0 && !(shape == TableShape::LateFirst && k == 0) {
                pts.push(SeekPoint::Defined { sample_offset: so, byte_offset: bo, frame_samples: *n as u16 });
            }
            so += *n as u64;
            bo += f.len() as u64;
        }
        if matches!(shape, TableShape::Placeholders | TableShape::OnlyPlaceholders) {
            for _ in 0..1 + ch.draw("rdg.ph.n", 3) {
                pts.push(SeekPoint::Placeholder);
            }
        }
        match shape {
            TableShape::LateFirst => probe("c06_table_first_point_after_start"),
            TableShape::OnlyPlaceholders => probe("c06_table_only_placeholders"),
            TableShape::Placeholders => probe("c06_table_with_placeholders"),
            _ => {}
        }
    }
    let mut blocks: Vec<Block> = vec![si.into()];
    if shape != TableShape::None {
        blocks.push(SeekTable { points: pts.try_into().ok()? }.into());
    }
    if ch.draw("rdg.pad", 2) == 1 {
        blocks.push(Padding { size: 40u32.try_into().unwrap() }.into());
    }
    let mut bytes = Vec::new();
    write_blocks(&mut bytes, blocks).ok()?;
    for f in &frames {
        bytes.extend_from_slice(f);
    }
    // the independent reader must find the file valid, with this PCM
    match refflac::parse_stream(&bytes, 0) {
        Ok(rs) if rs.is_valid() && rs.pcm() == pcm.inter => {}
        other => {
            crate::monitor::note(format!("HARNESS: generator-made file not valid per refflac: {:?}", other.map(|r| (r.end, r.hard))));
            return None;
        }
    }
    probe("rd_generator_made_file");
    if variable {
        probe("rd_variable_block_size_stream");
    }
    let mut cfg = draw_cfg(&Choices::generate(1), true);
    cfg.channels = channels as u8;
    cfg.bps = bps;
    cfg.rate = rate;
    cfg.block = base as u16;
    cfg.declare_total = true;
    cfg.offset = 0;
    cfg.declare_total = !total_unknown;
    Some(Fixture { cfg, pcm, bytes, shape, total_unknown })
}

fn open_front<'a>(front: Front, src: Src<SimFile>, c: usize) -> Result<Box<dyn Rd + 'a>, String> {
    Ok(match front {
        Front::ByteLE => Box::new(ByteRd(FlacByteReader::<_, LittleEndian>::new_seekable(src).map_err(|e| format!("{e:?}"))?)),
        Front::ByteBE => Box::new(ByteRd(FlacByteReader::<_, BigEndian>::new_seekable(src).map_err(|e| format!("{e:?}"))?)),
        Front::Sample | Front::SampleIter => Box::new(SampleRd(FlacSampleReader::new_seekable(src).map_err(|e| format!("{e:?}"))?)),
        Front::Channel => Box::new(ChannelRd {
            r: FlacChannelReader::new_seekable(src).map_err(|e| format!("{e:?}"))?,
            c,
        }),
    })
}

pub fn run_c07(ctx: &mut Ctx) -> R {
    run_history(ctx, false, false)
}
pub fn run_c06(ctx: &mut Ctx) -> R {
    run_history(ctx, true, false)
}
/// the same histories over generator-made files (block size changing from frame to frame)
pub fn run_c07_gen(ctx: &mut Ctx) -> R {
    run_history(ctx, false, true)
}
pub fn run_c06_gen(ctx: &mut Ctx) -> R {
    run_history(ctx, true, true)
}

fn run_history(ctx: &mut Ctx, with_seeks: bool, foreign: bool) -> R {
    let ch = ctx.ch.clone();
    let fx = if foreign { make_foreign_fixture(&ch, with_seeks) } else { make_fixture(&ch, with_seeks) };
    let Some(fx) = fx else {
        ctx.skip_foreign("fixture could not be encoded");
        return Ok(());
    };
    let front = *ch.pick("rd.front", &[Front::Sample, Front::ByteLE, Front::ByteBE, Front::Channel, Front::SampleIter]);
    let off = *ch.pick("rd.off", &[0usize, 0, 3, 64]);
    let mut ben = Benign::draw(&ch);
    let mut cap = draw_bufcap(&ch);
    if fx.bytes.len() > 40_000 {
        // large generator-made files (block sizes from the code table): byte-sized transfers over a
        // history full of rewinding seeks would exhaust the event budget without testing anything new
        ben = Benign::none();
        cap = cap.max(4096);
    }
    // every split point in turn is swept by the dedicated scenario `c07split`; here one drawn cut
    let cut = if ch.draw("rd.cut", 3) == 2 { Some((off as u64) + ch.draw("rd.cut.at", fx.bytes.len() as u64 + 1)) } else { None };
    let c = fx.cfg.channels as usize;
    let bytes_ps = fx.cfg.bytes_per_sample();
    let (model, unit): (Vec<i32>, usize) = match front {
        Front::ByteLE => (fx.pcm.to_bytes(false).iter().map(|b| *b as i32).collect(), bytes_ps * c),
        Front::ByteBE => (fx.pcm.to_bytes(true).iter().map(|b| *b as i32).collect(), bytes_ps * c),
        _ => (fx.pcm.inter.clone(), c),
    };
    ctx.describe(|| {
        format!(
            "{} front={front:?} table={:?} file={}B off={off} bufreader={cap} cut={cut:?} faults={ben:?} pcm_frames={} seeks={with_seeks}",
            fx.cfg.describe(),
            fx.shape,
            fx.bytes.len(),
            fx.pcm.frames
        )
    });
    let mut media = vec![0x5Au8; off];
    media.extend_from_slice(&fx.bytes);
    let file = ctx.disk.create(media);
    let src = wrap_src(ctx.disk.open(file, ben).set_pos(off as u64).set_cut(cut), cap);
    let r = if front == Front::SampleIter && !with_seeks {
        drive_iter(ctx, &ch, src, &model)
    } else {
        match open_front(front, src, c) {
            Ok(mut rd) => drive(ctx, &ch, &mut *rd, front, &model, unit, fx.cfg.block as usize, with_seeks, !fx.total_unknown),
            Err(e) => viol("delivery-mismatch", format!("cannot open a valid file: {e}")),
        }
    };
    let nontrivial = ctx.disk.0.borrow().frame_sized_transfers > 0;
    ctx.eval(0, nontrivial);
    r
}

/// sample reader: a few reads, then the iterator for the rest, then polls after the end
fn drive_iter(ctx: &mut Ctx, ch: &Choices, src: Src<SimFile>, model: &[i32]) -> R {
    let mut r = match FlacSampleReader::new(src) {
        Ok(r) => r,
        Err(e) => return viol("delivery-mismatch", format!("cannot open a valid file: {e:?}")),
    };
    let mut cur = 0usize;
    for _ in 0..ch.draw("it.pre", 4) {
        let n = 1 + ch.draw("it.pre.n", 50) as usize;
        let mut b = vec![0i32; n];
        match r.read(&mut b) {
            Ok(k) => {
                if cur + k > model.len() || b[..k] != model[cur..cur + k] {
                    return viol("delivery-mismatch", format!("read({n}) before iteration returned wrong data at {cur}"));
                }
                cur += k;
            }
            Err(e) => return viol("delivery-mismatch", format!("read failed on a valid stream: {e:?}")),
        }
    }
    let mut it = r.into_iter();
    let mut got = Vec::new();
    loop {
        match it.next() {
            Some(Ok(s)) => got.push(s),
            Some(Err(e)) => return viol("delivery-mismatch", format!("iterator failed on a valid stream after {} samples: {e:?}", got.len())),
            None => break,
        }
        if got.len() > model.len() + 10 {
            break;
        }
    }
    ctx.api(24, 0);
    if got[..] != model[cur..] {
        return viol("delivery-mismatch", format!("iterator delivered {} samples from position {cur}, model has {}", got.len(), model.len() - cur));
    }
    for k in 0..1 + ch.draw("it.after", 4) {
        if let Some(x) = it.next() {
            return viol("eos-not-idempotent", format!("iterator poll #{k} after the end returned {x:?}"));
        }
        probe("c07_call_after_eos");
    }
    Ok(())
}

/// drives a history against the model; returns the first discrepancy
fn drive(ctx: &mut Ctx, ch: &Choices, rd: &mut dyn Rd, front: Front, model: &[i32], unit: usize, block: usize, with_seeks: bool, total_known: bool) -> R {
    let is_byte = matches!(front, Front::ByteLE | Front::ByteBE);
    let frame_items = unit * block;
    let mut cur: usize = 0;
    // after a failed seek the position is unspecified: the history re-seeks before reading
    let mut pos_known = true;
    let mut eos_seen = false;
    let nops = 1 + ch.draw("h.nops", 40);
    let mut after_eos_left = 0u64;
    let mut i = 0;
    let mismatch = |what: &str, cur: usize, got: &[i32]| -> Violation {
        let first = got.iter().zip(&model[cur.min(model.len())..]).position(|(a, b)| a != b);
        Violation {
            class: "delivery-mismatch".into(),
            msg: format!(
                "{what}: returned {} items at model position {cur} of {}; first wrong item at +{:?}; got {} model {}",
                got.len(),
                model.len(),
                first,
                short_vec(got, 6),
                short_vec(&model[cur.min(model.len())..], 6)
            ),
        }
    };
    while i < nops || after_eos_left > 0 {
        i += 1;
        if after_eos_left > 0 {
            after_eos_left -= 1;
        }
        let mut op = ch.draw("h.op", if with_seeks { 8 } else { 5 });
        if !pos_known {
            op = 5; // must re-seek
        }
        if front == Front::Channel && op == 0 {
            op = 1;
        }
        match op {
            0 => {
                // read(n)
                let n = match ch.draw("h.read.n", 8) {
                    0 => frame_items.max(1),
                    1 => 0,
                    2 => 1,
                    3 => 3,
                    4 => frame_items.saturating_sub(1).max(1),
                    5 => frame_items + 1,
                    6 => frame_items * 3 + 5,
                    _ => 1 + ch.draw("h.read.any", (frame_items as u64 * 2).max(4)) as usize,
                };
                ctx.note(|| format!("op read({n}) at model position {cur}"));
                let got = match rd.read(n) {
                    Ok(g) => g,
                    Err(e) => return viol("delivery-mismatch", format!("read({n}) at {cur}/{} failed on a valid stream: {e}", model.len())),
                };
                ctx.api(20, (got.len() == 0) as u64);
                if got.len() > n {
                    return viol("delivery-mismatch", format!("read({n}) returned {} items", got.len()));
                }
                if model.len() - cur.min(model.len()) < got.len() || got[..] != model[cur..cur + got.len()] {
                    return Err(if eos_seen {
                        Violation {
                            class: "eos-not-idempotent".into(),
                            msg: format!("read({n}) after end-of-stream returned {} items", got.len()),
                        }
                    } else {
                        mismatch(&format!("read({n})"), cur, &got)
                    });
                }
                if n > 0 && got.is_empty() {
                    if cur != model.len() {
                        return viol("delivery-mismatch", format!("read({n}) returned nothing at position {cur} of {}", model.len()));
                    }
                    if !eos_seen {
                        eos_seen = true;
                        after_eos_left = 1 + ch.draw("h.after_eos", 5);
                        probe("c07_call_after_eos");
                    }
                }
                if n > 0 && frame_items > 0 && cur / frame_items != (cur + got.len().max(1) - 1) / frame_items {
                    probe("c07_read_spans_frames");
                }
                cur += got.len();
            }
            1 | 2 => {
                // fill + consume(k)
                ctx.note(|| format!("op fill_buf at model position {cur}"));
                let got = match rd.fill() {
                    Ok(g) => g,
                    Err(e) if e.starts_with("DELIVERY") => return viol("delivery-mismatch", e),
                    Err(e) => return viol("delivery-mismatch", format!("fill_buf at {cur}/{} failed on a valid stream: {e}", model.len())),
                };
                ctx.api(21, (got.len() == 0) as u64);
                if model.len() - cur.min(model.len()) < got.len() || got[..] != model[cur..cur + got.len()] {
                    return Err(if eos_seen || cur == model.len() {
                        Violation {
                            class: "eos-not-idempotent".into(),
                            msg: format!("fill_buf at the end of the stream returned {} items instead of an empty buffer", got.len()),
                        }
                    } else {
                        mismatch("fill_buf", cur, &got)
                    });
                }
                if got.is_empty() {
                    if cur != model.len() {
                        return viol("delivery-mismatch", format!("fill_buf returned nothing at position {cur} of {}", model.len()));
                    }
                    if !eos_seen {
                        eos_seen = true;
                        after_eos_left = 1 + ch.draw("h.after_eos", 5);
                        probe("c07_call_after_eos");
                    }
                } else {
                    let units = got.len() / if front == Front::Channel { unit } else { 1 };
                    let k = match ch.draw("h.consume", 5) {
                        0 => units,
                        1 => 0,
                        2 => 1,
                        3 => (units / 2).max(1),
                        _ => ch.draw("h.consume.k", units as u64 + 1) as usize,
                    };
                    match k {
                        0 => probe("c07_consume_0"),
                        k if k == units => probe("c07_consume_all"),
                        _ => probe("c07_consume_partial"),
                    }
                    let items = k * if front == Front::Channel { unit } else { 1 };
                    ctx.note(|| format!("   consume({items} items)"));
                    rd.consume(items);
                    cur += items;
                }
            }
            3 => {
                // read_to_end
                ctx.note(|| format!("op read_to_end at model position {cur}"));
                let got = match rd.to_end() {
                    Ok(g) => g,
                    Err(e) => return viol("delivery-mismatch", format!("read_to_end at {cur}/{} failed on a valid stream: {e}", model.len())),
                };
                ctx.api(22, 0);
                if got[..] != model[cur.min(model.len())..] {
                    return Err(if eos_seen {
                        Violation {
                            class: "eos-not-idempotent".into(),
                            msg: format!("read_to_end after end-of-stream returned {} items", got.len()),
                        }
                    } else {
                        mismatch("read_to_end", cur, &got)
                    });
                }
                cur = model.len();
                if !eos_seen {
                    eos_seen = true;
                    after_eos_left = 1 + ch.draw("h.after_eos", 5);
                }
            }
            4 => {
                // a burst of small reads (exercises partial drains)
                let n = 1 + ch.draw("h.burst.n", 4) as usize;
                for _ in 0..1 + ch.draw("h.burst.k", 6) {
                    if front == Front::Channel {
                        break;
                    }
                    let got = match rd.read(n) {
                        Ok(g) => g,
                        Err(e) => return viol("delivery-mismatch", format!("read({n}) at {cur} failed on a valid stream: {e}")),
                    };
                    if model.len() - cur.min(model.len()) < got.len() || got[..] != model[cur..cur + got.len()] {
                        return Err(if eos_seen {
                            Violation {
                                class: "eos-not-idempotent".into(),
                                msg: format!("read({n}) after end-of-stream returned {} items", got.len()),
                            }
                        } else {
                            mismatch(&format!("read({n}) in burst"), cur, &got)
                        });
                    }
                    if got.is_empty() {
                        if cur != model.len() {
                            return viol("delivery-mismatch", format!("read({n}) returned nothing at position {cur} of {}", model.len()));
                        }
                        break;
                    }
                    cur += got.len();
                }
            }
            _ => {
                // seek
                let len = model.len() as u64;
                let u = unit as u64;
                let fi = frame_items.max(1) as u64;
                let target_items: i128 = match ch.draw("h.seek.t", 12) {
                    0 => 0,
                    1 => len as i128,
                    2 => (len + u) as i128,
                    3 => len as i128 - u as i128,
                    4 => (ch.draw("h.seek.fb", len / fi + 1) * fi) as i128,
                    5 => (ch.draw("h.seek.fb", len / fi + 1) * fi) as i128 + u as i128,
                    6 => (ch.draw("h.seek.fb", len / fi + 1) * fi) as i128 - u as i128,
                    7 => (len * 3 + 7 * u) as i128,
                    8 => (ch.draw("h.seek.any", len / u + 1) * u) as i128,
                    9 => ch.draw("h.seek.byte", len + 1) as i128, // not a multiple of the PCM frame size (byte reader)
                    10 => -(u as i128),
                    _ => (ch.draw("h.seek.any", len / u + 1) * u) as i128,
                };
                // sometimes a request at the far ends of the argument types: all of them lie outside the
                // stream and are to be refused (and computed without overflow)
                let extreme = ch.draw("h.seek.extreme", 12) == 11;
                let (req, target): (SeekReq, i128) = if extreme && is_byte {
                    probe("c06_seek_argument_extreme");
                    match ch.draw("h.seek.x", 8) {
                        0 => (SeekReq::Start(u64::MAX), u64::MAX as i128),
                        1 => (SeekReq::Start(1 << 63), 1i128 << 63),
                        2 => (SeekReq::Start(u64::MAX - u + 1), (u64::MAX - u + 1) as i128),
                        3 if pos_known => (SeekReq::Cur(i64::MAX), cur as i128 + i64::MAX as i128),
                        4 if pos_known => (SeekReq::Cur(i64::MIN), cur as i128 + i64::MIN as i128),
                        5 => (SeekReq::End(i64::MAX), len as i128 + i64::MAX as i128),
                        6 => (SeekReq::End(i64::MIN), len as i128 + i64::MIN as i128),
                        _ => (SeekReq::End(1), len as i128 + 1),
                    }
                } else if extreme {
                    probe("c06_seek_argument_extreme");
                    let t = *ch.pick("h.seek.xf", &[u64::MAX, u64::MAX / u, (u64::MAX / u).saturating_add(1), 1 << 63, 1 << 36, (1 << 36) - 1, u64::MAX - 1]);
                    (SeekReq::Frame(t), t as i128 * u as i128)
                } else if is_byte {
                    match ch.draw("h.seek.from", 4) {
                        0 | 1 => {
                            if target_items < 0 && pos_known {
                                (SeekReq::Cur(-(cur as i64) - u as i64), -(u as i128))
                            } else if target_items < 0 {
                                (SeekReq::End(-(len as i64) - u as i64), -(u as i128))
                            } else {
                                (SeekReq::Start(target_items as u64), target_items)
                            }
                        }
                        2 if pos_known => {
                            probe(if target_items < cur as i128 { "c06_current_negative" } else { "c06_current_forward" });
                            (SeekReq::Cur((target_items - cur as i128) as i64), target_items)
                        }
                        2 => (SeekReq::Start(target_items.max(0) as u64), target_items.max(0)),
                        _ => {
                            probe("c06_seek_from_end");
                            (SeekReq::End((target_items - len as i128) as i64), target_items)
                        }
                    }
                } else {
                    // sample-indexed seek: targets are whole PCM frames
                    let t = (target_items.max(0) as u64) / u;
                    (SeekReq::Frame(t), (t * u) as i128)
                };
                if eos_seen {
                    probe("c06_seek_after_eos");
                }
                if target >= 0 && target % fi as i128 == 0 {
                    probe("c06_seek_frame_boundary");
                } else {
                    probe("c06_seek_mid_frame");
                }
                if target >= 0 && target % u as i128 != 0 {
                    probe("c06_seek_mid_pcm_frame");
                }
                ctx.note(|| format!("op seek {req:?} (absolute item {target}) from model position {cur}, stream length {len}"));
                let r = rd.seek(req);
                ctx.api(23, r.is_ok() as u64);
                let valid = target >= 0 && target <= len as i128;
                match (r, valid) {
                    (Ok(ret), true) => {
                        if let Some(p) = ret {
                            if p != target as u64 {
                                return viol("seek-misplaced", format!("seek {req:?} returned position {p}, expected {target}"));
                            }
                        }
                        cur = target as usize;
                        pos_known = true;
                        eos_seen = false;
                        after_eos_left = 0;
                        // data that follows a successful seek is checked by the next operations;
                        // make sure at least one follows
                        if i >= nops {
                            i = nops - 1;
                        }
                    }
                    (Ok(ret), false) => {
                        probe("c06_seek_beyond_end");
                        return viol(
                            "seek-beyond-end-ok",
                            format!("seek {req:?} to item {target} of a {len}-item stream returned Ok({ret:?}); requests beyond the end must fail"),
                        );
                    }
                    (Err(_), true) if !total_known && matches!(req, SeekReq::End(_)) => {
                        // the header does not say where the end is: an end-relative request cannot be served
                        probe("c06_end_relative_seek_refused_for_unknown_length");
                        pos_known = false;
                    }
                    (Err(e), true) => {
                        return viol("seek-misplaced", format!("seek {req:?} to item {target} (stream has {len}) failed: {e}"));
                    }
                    (Err(_), false) => {
                        probe("c06_seek_beyond_end");
                        pos_known = false;
                    }
                }
            }
        }
        if i > 400 {
            break;
        }
    }
    Ok(())
}

/// C07, exhaustive part: every single split point of the source in turn (file <= 2 KiB)
pub fn run_c07_split(ctx: &mut Ctx) -> R {
    let ch = ctx.ch.clone();
    let Some(fx) = make_fixture(&ch, false) else {
        ctx.skip_foreign("fixture could not be encoded");
        return Ok(());
    };
    if fx.bytes.len() > 2048 {
        ctx.eval(0, false);
        return Ok(());
    }
    let rk = draw_rkind(&ch);
    let cap = *ch.pick("split.cap", &[0usize, 0, 1, 3, 64]);
    let pat_seed = ch.raw("split.pattern");
    ctx.describe(|| format!("every split point of a {}-byte file, reader {rk:?}, bufreader {cap}: {}", fx.bytes.len(), fx.cfg.describe()));
    for cut in 1..fx.bytes.len() as u64 {
        let d = crate::disk::Disk::new(&ctx.ch, ctx.trace);
        let f = d.create(fx.bytes.clone());
        let src = wrap_src(d.open(f, Benign::none()).set_cut(Some(cut)), cap);
        let pat = Choices::generate(pat_seed);
        let r = decode_all(src, rk, &pat, fx.cfg.block as usize);
        ctx.extra_events += d.seq();
        ctx.eval_fp(d.fp(), true);
        if r.err.is_some() || r.samples != fx.pcm.inter {
            ctx.adopt_trace(&d, &format!("split at byte {cut}"));
            return viol(
                "benign-fault-visible",
                format!(
                    "source split at byte {cut} of {}: reader {rk:?} delivered {} of {} samples, error {:?}",
                    fx.bytes.len(),
                    r.samples.len(),
                    fx.pcm.inter.len(),
                    r.err
                ),
            );
        }
    }
    Ok(())
}
