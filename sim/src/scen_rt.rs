//! The round-trip world: encode a drawn PCM through a drawn front-end and call history onto the
//! simulated disk (benign faults on), then judge the medium.  Serves C01, C02, C09, C19 and the
//! clean half of C17.

use crate::core::*;
use crate::disk::Benign;
use crate::genr::*;
use crate::monitor::probe;
use crate::refflac::{self, StreamEnd, SubKind};
use crate::world::*;
use flac_codec::encode::SeekTableInterval;
use std::io::Write;

pub struct Encoded {
    pub cfg: Cfg,
    pub pcm: Pcm,
    pub kind: WKind,
    pub file: usize,
    pub media: Vec<u8>,
    pub pre_finalize: Vec<u8>,
}

pub struct RtParams {
    pub cfg: Cfg,
    pub pcm: Pcm,
    pub kind: WKind,
    pub chunks: Vec<usize>,
    pub wben: Benign,
    pub wcap: usize,
}

pub fn draw_params(ctx: &mut Ctx, small: bool, max_blocks: u64) -> RtParams {
    let ch = ctx.ch.clone();
    let cfg = draw_cfg(&ch, small);
    let n = draw_len(&ch, &cfg, max_blocks);
    let pcm = draw_pcm(&ch, cfg.channels, cfg.bps, n);
    let kind = draw_wkind(&ch);
    let chunks = draw_write_chunks(&ch, kind, &pcm);
    let wben = Benign::draw(&ch);
    let wcap = *ch.pick("w.bufcap", &[0usize, 0, 0, 1, 16, 100, 8192]);
    RtParams {
        cfg,
        pcm,
        kind,
        chunks,
        wben,
        wcap,
    }
}

/// Encodes according to `p` onto a fresh file of ctx.disk. Err = the encoder refused or failed.
pub fn encode_to_disk(ctx: &mut Ctx, p: &RtParams) -> Result<Encoded, EncErr> {
    crate::world::FLUSH_BETWEEN.with(|f| f.set(ctx.ch.draw("w.flush_between", 4) == 3));
    let r = encode_to_disk_inner(ctx, p);
    crate::world::FLUSH_BETWEEN.with(|f| f.set(false));
    r
}

fn encode_to_disk_inner(ctx: &mut Ctx, p: &RtParams) -> Result<Encoded, EncErr> {
    let file = ctx.disk.create(vec![0xA5; p.cfg.offset]);
    let f = ctx.disk.open(file, p.wben).set_pos(p.cfg.offset as u64);
    let mut sink = wrap_sink(f, p.wcap);
    let declared = p.cfg.declare_total.then(|| total_for(p.kind, &p.pcm));
    let disk = ctx.disk.clone();
    let mut pre = Vec::new();
    // sometimes the caller hands over a trailing partial PCM frame (1..unit-1 stray samples or bytes);
    // it must be dropped, and must not be counted or hashed either
    let unit = match p.kind {
        WKind::Sample => p.cfg.channels as usize,
        WKind::ByteLE | WKind::ByteBE => p.cfg.channels as usize * p.cfg.bytes_per_sample(),
        WKind::Channel => 1,
    };
    let tail: Vec<i32> = if unit >= 2 && declared.is_none() && ctx.ch.draw("w.partial_tail", 6) == 5 {
        probe("write_with_trailing_partial_pcm_frame");
        let t = 1 + ctx.ch.draw("w.partial_tail.n", unit as u64 - 1) as usize;
        (0..t).map(|i| (i as i32 * 7 + 1) & 0x7f).collect()
    } else {
        Vec::new()
    };
    let r = encode(
        &mut sink,
        &p.cfg,
        &p.pcm,
        p.kind,
        &p.chunks,
        declared,
        EndMode::Finalize,
        &tail,
        &mut || pre = disk.data(file),
    );
    r?;
    sink.flush().map_err(|e| EncErr {
        stage: "flush",
        err: format!("{e:?}"),
        io: true,
    })?;
    drop(sink);
    Ok(Encoded {
        cfg: p.cfg.clone(),
        pcm: p.pcm.clone(),
        kind: p.kind,
        file,
        media: ctx.disk.data(file),
        pre_finalize: pre,
    })
}

fn describe(ctx: &mut Ctx, p: &RtParams) {
    let (cfg, pcm, kind, chunks, wben, wcap) = (&p.cfg, &p.pcm, p.kind, &p.chunks, p.wben, p.wcap);
    ctx.describe(|| {
        format!(
            "{} frames={} writer={kind:?} chunks={} wbuf={wcap} wfaults={wben:?} pcm={}",
            cfg.describe(),
            pcm.frames,
            short_vec(chunks, 8),
            short_vec(&pcm.inter, 24)
        )
    });
}

pub fn run(ctx: &mut Ctx) -> R {
    let small = ctx.ch.draw("rt.small", 4) != 0;
    let p = draw_params(ctx, small, if small { 5 } else { 3 });
    describe(ctx, &p);
    let ch = ctx.ch.clone();
    let enc = match encode_to_disk(ctx, &p) {
        Ok(e) => e,
        Err(e) => {
            ctx.api(1, 1);
            ctx.eval(0, true);
            if ctx.is("C01") {
                return viol(
                    "encode-failed",
                    format!("valid input refused/failed at {}: {}", e.stage, e.err),
                );
            }
            ctx.skip_foreign(format!("encode failed at {}: {} (C01's matter)", e.stage, e.err));
            return Ok(());
        }
    };
    ctx.api(1, 0);
    let r = match ctx.prop.as_str() {
        "C01" => check_c01(ctx, &enc, &ch),
        "C02" => check_c02(ctx, &enc),
        "C09" => check_c09(ctx, &enc),
        "C19" => check_c19(ctx, &enc),
        "C17" => crate::scen_c17::check_clean(ctx, &enc),
        _ => Ok(()),
    };
    let nontrivial = ctx.disk.0.borrow().frame_sized_transfers > 0;
    ctx.eval(0, nontrivial);
    r
}

pub fn check_c01(ctx: &mut Ctx, enc: &Encoded, ch: &crate::rng::Choices) -> R {
    let rk = draw_rkind(ch);
    let rben = Benign::draw(ch);
    let rcap = draw_bufcap(ch);
    ctx.note(|| format!("reader={rk:?} rbuf={rcap} rfaults={rben:?}"));
    let f = ctx.disk.open(enc.file, rben).set_pos(enc.cfg.offset as u64);
    let d = decode_all(wrap_src(f, rcap), rk, ch, enc.cfg.block as usize);
    ctx.api(2, d.err.is_some() as u64);
    if d.open_err {
        return viol("not-lossless", format!("reader {rk:?} cannot open finished stream: {:?}", d.err));
    }
    if let Some(e) = &d.err {
        return viol(
            "not-lossless",
            format!(
                "reader {rk:?} failed after {} of {} samples: {e}",
                d.samples.len(),
                enc.pcm.inter.len()
            ),
        );
    }
    if d.samples != enc.pcm.inter {
        let i = d.samples.iter().zip(&enc.pcm.inter).position(|(a, b)| a != b);
        return viol(
            "not-lossless",
            format!(
                "reader {rk:?}: decoded {} samples, wrote {}; first difference at {:?}",
                d.samples.len(),
                enc.pcm.inter.len(),
                i
            ),
        );
    }
    let m = d.meta.unwrap();
    if m.channels != enc.cfg.channels || m.rate != enc.cfg.rate || m.bps != enc.cfg.bps {
        return viol("not-lossless", format!("stream parameters changed: {m:?} vs {}", enc.cfg.describe()));
    }
    if m.total != Some(enc.pcm.frames as u64) {
        return viol("not-lossless", format!("total samples {:?} != {}", m.total, enc.pcm.frames));
    }
    Ok(())
}

pub fn check_c02(ctx: &mut Ctx, enc: &Encoded) -> R {
    let s = match refflac::parse_stream(&enc.media, enc.cfg.offset) {
        Ok(s) => s,
        Err(e) => return viol("nonconforming:metadata", format!("{e:?}")),
    };
    ctx.api(3, 0);
    record_probes(&s);
    if !matches!(s.end, StreamEnd::Clean) {
        return viol("nonconforming:frame", format!("stream ends with {:?} after {} frames", s.end, s.frames.len()));
    }
    if let Some(h) = s.hard.first() {
        return viol("nonconforming:stream", h.clone());
    }
    if let Some(h) = s.meta.issues.first() {
        return viol("nonconforming:streaminfo", h.clone());
    }
    if let Some(x) = s.strict.first() {
        let rule = if x.contains("9.2.7") {
            "partition"
        } else if x.contains("padding") {
            "padding"
        } else if x.contains("consecutive") || x.contains("first frame number") {
            "numbering"
        } else if x.contains("advertised") {
            "blocksize"
        } else if x.contains("fit") {
            "range"
        } else {
            "rule"
        };
        return viol(format!("nonconforming:{rule}"), x.clone());
    }
    if s.pcm() != enc.pcm.inter {
        return viol("nonconforming:pcm", "independent decoder reconstructs different PCM".to_string());
    }
    let si = &s.meta.si;
    if si.channels != enc.cfg.channels || si.rate != enc.cfg.rate || si.bps != enc.cfg.bps {
        return viol("nonconforming:streaminfo", format!("{si:?} vs {}", enc.cfg.describe()));
    }
    Ok(())
}

pub fn record_probes(s: &refflac::RefStream) {
    for f in &s.frames {
        match f.assignment {
            8 => probe("assign_left_side"),
            9 => probe("assign_side_right"),
            10 => probe("assign_mid_side"),
            _ => probe("assign_independent"),
        }
        match f.bs_code {
            6 => probe("bs_8bit"),
            7 => probe("bs_16bit"),
            _ => probe("bs_common"),
        }
        match f.rate_code {
            0 => probe("rate_streaminfo"),
            12 => probe("rate_khz"),
            13 => probe("rate_hz"),
            14 => probe("rate_dahz"),
            _ => probe("rate_common"),
        }
        if f.bps_code == 0 {
            probe("bps_streaminfo");
        }
        for sub in &f.subs {
            match sub.kind {
                SubKind::Constant => probe("sub_constant"),
                SubKind::Verbatim => probe("sub_verbatim"),
                SubKind::Fixed(0) => probe("sub_fixed0"),
                SubKind::Fixed(1) => probe("sub_fixed1"),
                SubKind::Fixed(2) => probe("sub_fixed2"),
                SubKind::Fixed(3) => probe("sub_fixed3"),
                SubKind::Fixed(_) => probe("sub_fixed4"),
                SubKind::Lpc(o) if o <= 4 => probe("sub_lpc_1_4"),
                SubKind::Lpc(o) if o <= 12 => probe("sub_lpc_5_12"),
                SubKind::Lpc(_) => probe("sub_lpc_13_32"),
            }
            if sub.wasted > 0 {
                probe("wasted_bits");
            }
            if sub.rice2 {
                probe("rice2");
            }
            if sub.escaped {
                probe("escaped_partition");
            }
            if sub.zero_escape {
                probe("zero_width_partition");
            }
            if sub.part_order.unwrap_or(0) >= 3 {
                probe("partition_order_ge3");
            }
        }
    }
}

pub fn check_c09(ctx: &mut Ctx, enc: &Encoded) -> R {
    let off = enc.cfg.offset;
    let s = match refflac::parse_stream(&enc.media, off) {
        Ok(s) => s,
        Err(e) => {
            ctx.skip_foreign(format!("finished file unparseable by refflac ({e:?}) — C02's matter"));
            return Ok(());
        }
    };
    if !matches!(s.end, StreamEnd::Clean) {
        // Was the stream parseable before finalize rewrote the header? Then finalize moved the frames
        // relative to the metadata (or wrote over them): C09's own clause. Otherwise the frames were
        // never right, which is C01/C02's matter.
        if let Ok(before) = refflac::parse_stream(&enc.pre_finalize, off) {
            let parsed_before = before.frames.len();
            if parsed_before > 0 && parsed_before >= s.frames.len() && !enc.pre_finalize.is_empty() {
                let a0 = before.meta.audio_start;
                let a1 = s.meta.audio_start;
                let first = &before.frames[0];
                let same_place = enc.media.len() >= first.end && enc.media[first.start..first.end] == enc.pre_finalize[first.start..first.end];
                if a0 != a1 || !same_place {
                    return viol(
                        "frames-touched",
                        format!(
                            "before finalize the metadata ended at byte {a0} and {parsed_before} frame(s) parsed from there; after finalize the metadata ends at byte {a1} and the frames no longer parse ({:?}): finalize changed the header's size or wrote over the first frame",
                            s.end
                        ),
                    );
                }
            }
        }
        ctx.skip_foreign(format!("frames not parseable ({:?}) — C01/C02's matter", s.end));
        return Ok(());
    }
    ctx.api(4, 0);
    let si = &s.meta.si;
    let pcm = &enc.pcm;
    if si.total != pcm.frames as u64 {
        return viol("header-untruthful:total", format!("STREAMINFO total {} but {} PCM frames written", si.total, pcm.frames));
    }
    if si.channels != enc.cfg.channels {
        return viol("header-untruthful:channels", format!("{} vs {}", si.channels, enc.cfg.channels));
    }
    if si.rate != enc.cfg.rate {
        return viol("header-untruthful:rate", format!("{} vs {}", si.rate, enc.cfg.rate));
    }
    if si.bps != enc.cfg.bps {
        return viol("header-untruthful:bps", format!("{} vs {}", si.bps, enc.cfg.bps));
    }
    if si.md5 != pcm.md5() {
        return viol("header-untruthful:md5", "STREAMINFO MD5 is not the MD5 of the PCM as little-endian bytes".to_string());
    }
    let lens: Vec<u32> = s.frames.iter().map(|f| (f.end - f.start) as u32).collect();
    let (mn, mx) = (*lens.iter().min().unwrap(), *lens.iter().max().unwrap());
    if si.min_frame != mn || si.max_frame != mx {
        return viol(
            "header-untruthful:framesize",
            format!("STREAMINFO frame sizes {}..{} but real {}..{}", si.min_frame, si.max_frame, mn, mx),
        );
    }
    let last = s.frames.len() - 1;
    for (i, f) in s.frames.iter().enumerate() {
        if i < last && (f.block_size != si.max_block as u32 || f.block_size != si.min_block as u32) {
            return viol(
                "header-untruthful:blocksize",
                format!("non-final frame {i} has {} samples, STREAMINFO says {}..{}", f.block_size, si.min_block, si.max_block),
            );
        }
        if f.block_size > si.max_block as u32 {
            return viol("header-untruthful:blocksize", format!("frame {i} exceeds maximum block size"));
        }
    }
    // metadata region keeps its length; audio bytes and the prefix are not touched by finalize
    let pre = &enc.pre_finalize;
    if pre[..off.min(pre.len())] != enc.media[..off.min(pre.len())] || enc.media[..off].iter().any(|b| *b != 0xA5) {
        return viol("audio-moved", "bytes before the stream start were overwritten".to_string());
    }
    let a = s.meta.audio_start;
    if pre.len() > a {
        probe("c09_prefinalize_has_frames");
        if pre[a..] != enc.media[a..pre.len()] {
            return viol("audio-moved", "finalize changed bytes inside the frame region".to_string());
        }
        match refflac::parse_meta(pre, off) {
            Ok(m) => {
                if m.audio_start != a {
                    return viol(
                        "audio-moved",
                        format!("metadata region was {} bytes before finalize and {} after", m.audio_start - off, a - off),
                    );
                }
            }
            Err(e) => return viol("audio-moved", format!("provisional metadata unparseable: {e:?}")),
        }
    }
    // seek table
    let mut starts = Vec::with_capacity(s.frames.len());
    let mut acc = 0u64;
    for f in &s.frames {
        starts.push(acc);
        acc += f.block_size as u64;
    }
    match (&s.meta.seektable, enc.cfg.seek) {
        (Some(_), SeekPolicy::Off) => return viol("seekpoint-untruthful", "seek table written although disabled".to_string()),
        (None, _) => {
            if enc.cfg.seek != SeekPolicy::Off {
                if enc.cfg.declare_total {
                    return viol("seekpoint-untruthful", "declared length and seek table requested, but none written".to_string());
                }
                probe("c09_no_room_for_table");
            }
        }
        (Some(pts), _) => {
            if enc.cfg.declare_total {
                probe("c09_table_prereserved");
            } else {
                probe("c09_table_carved_from_padding");
            }
            let mut seen_placeholder = false;
            let mut prev: Option<u64> = None;
            for (i, &(smp, o, n)) in pts.iter().enumerate() {
                if smp == u64::MAX {
                    seen_placeholder = true;
                    probe("c09_placeholder_point");
                    continue;
                }
                if seen_placeholder {
                    return viol("seekpoint-untruthful", format!("defined point {i} after a placeholder"));
                }
                if let Some(p) = prev {
                    if smp <= p {
                        return viol("seekpoint-untruthful", format!("point {i} sample {smp} not ascending after {p}"));
                    }
                }
                prev = Some(smp);
                match starts.iter().position(|&x| x == smp) {
                    None => return viol("seekpoint-untruthful", format!("point {i} names sample {smp}, not the start of any frame")),
                    Some(fi) => {
                        let f = &s.frames[fi];
                        if (f.start - a) as u64 != o {
                            return viol("seekpoint-untruthful", format!("point {i} offset {o} but frame {fi} is at {}", f.start - a));
                        }
                        if f.block_size != n as u32 {
                            return viol("seekpoint-untruthful", format!("point {i} length {n} but frame {fi} has {}", f.block_size));
                        }
                    }
                }
            }
            // regenerate from the finished file, read through benign faults
            let interval = match enc.cfg.seek {
                SeekPolicy::Frames(n) => SeekTableInterval::Frames(n.try_into().unwrap()),
                SeekPolicy::Seconds(sec) => SeekTableInterval::Seconds(sec.try_into().unwrap()),
                SeekPolicy::Off => unreachable!(),
            };
            let ch = ctx.ch.clone();
            let rben = Benign::draw(&ch);
            let f = ctx.disk.open(enc.file, rben).set_pos(off as u64);
            match flac_codec::encode::generate_seektable(wrap_src(f, draw_bufcap(&ch)), interval) {
                Ok(t) => {
                    let regen: Vec<(u64, u64, u16)> = t
                        .points
                        .iter()
                        .filter_map(|p| match p {
                            flac_codec::metadata::SeekPoint::Defined {
                                sample_offset,
                                byte_offset,
                                frame_samples,
                            } => Some((*sample_offset, *byte_offset, *frame_samples)),
                            _ => None,
                        })
                        .collect();
                    let defined: Vec<(u64, u64, u16)> = pts.iter().copied().filter(|p| p.0 != u64::MAX).collect();
                    if regen != defined {
                        return viol(
                            "seekpoint-untruthful",
                            format!(
                                "regenerated table differs: written {} regenerated {}",
                                short_vec(&defined, 6),
                                short_vec(&regen, 6)
                            ),
                        );
                    }
                }
                Err(e) => return viol("seekpoint-untruthful", format!("generate_seektable failed on the finished file: {e:?}")),
            }
        }
    }
    if off > 0 {
        probe("c09_nonzero_offset");
    }
    if enc.cfg.padding.is_none() {
        probe("c09_no_padding");
    }
    Ok(())
}

pub fn frame_bound(n: u64, channels: u64, bps: u64) -> u64 {
    let stereo = (channels == 2) as u64;
    (channels * n * bps + stereo * n).div_ceil(8) + 16 + 6 * channels + 3
}

pub fn check_c19(ctx: &mut Ctx, enc: &Encoded) -> R {
    let s = match refflac::parse_stream(&enc.media, enc.cfg.offset) {
        Ok(s) if matches!(s.end, StreamEnd::Clean) => s,
        other => {
            ctx.skip_foreign(format!("refflac cannot delimit frames ({:?})", other.map(|s| s.end)));
            return Ok(());
        }
    };
    ctx.api(5, 0);
    let c = enc.cfg.channels as usize;
    let chans = enc.pcm.chans();
    let mut first = 0usize;
    for (i, f) in s.frames.iter().enumerate() {
        let n = f.block_size as usize;
        let len = (f.end - f.start) as u64;
        let bound = frame_bound(n as u64, c as u64, enc.cfg.bps as u64);
        if len > bound {
            return viol(
                "frame-too-large",
                format!("frame {i}: {len} bytes for {n} samples x {c} ch x {} bits; verbatim bound {bound}", enc.cfg.bps),
            );
        }
        let constant = chans
            .iter()
            .all(|ch| first + n <= ch.len() && ch[first..first + n].iter().all(|&x| x == ch[first]));
        if constant {
            probe("c19_constant_block");
            let cb = 16 + 3 + 40 * c as u64;
            if len > cb {
                return viol("frame-too-large", format!("constant block of {n} samples costs {len} bytes (> {cb})"));
            }
        }
        if f.subs.iter().any(|s| s.kind == SubKind::Verbatim) {
            probe("verbatim_fallback");
        }
        first += n;
    }
    Ok(())
}


/// C09, the "more frames than a seek table can hold" case: 932 100 frames of 16 silent samples,
/// undeclared length, a seek point requested for every frame, table to be carved from padding
pub fn run_c09_big(ctx: &mut Ctx) -> R {
    use flac_codec::encode::{FlacSampleWriter, Options, SeekTableInterval};
    use flac_codec::metadata::SeekPoint;
    let ch = ctx.ch.clone();
    const MAXP: usize = 932_067;
    // the cell: how far past the table's capacity, which interval, length declared or discovered
    let frames: usize = *ch.pick("c09big.frames", &[932_100usize, MAXP + 3, MAXP, 1_000_003, 1_864_140, MAXP + 1]);
    let ik = ch.draw("c09big.interval", 5);
    let declared = ch.draw("c09big.declared", 2) == 1;
    let (opts, interval, what) = match ik {
        0 | 1 => (Options::default().seektable_frames(1), SeekTableInterval::Frames(1.try_into().unwrap()), "seektable_frames(1)"),
        2 => (Options::default().seektable_frames(2), SeekTableInterval::Frames(2.try_into().unwrap()), "seektable_frames(2)"),
        3 => (Options::default().seektable_frames(3), SeekTableInterval::Frames(3.try_into().unwrap()), "seektable_frames(3)"),
        _ => (Options::default().seektable_seconds(1), SeekTableInterval::Seconds(1.try_into().unwrap()), "seektable_seconds(1)"),
    };
    // undeclared: the table is carved from the padding if all of it fits, so the padding is either the
    // largest possible (room for a full table) or the default (no room)
    let roomy = declared || ch.draw("c09big.roomy", 4) != 0;
    ctx.describe(|| format!("{frames} frames of 16 samples, mono 8-bit, {} length, {what}, {} padding", if declared { "declared" } else { "undeclared" }, if roomy && !declared { "2^24-1" } else { "default" }));
    let opts = opts.block_size(16).unwrap().max_lpc_order(None).unwrap();
    let opts = if roomy && !declared { opts.padding((1 << 24) - 1).unwrap() } else { opts };
    let total = (frames * 16) as u64;
    let mut cur = std::io::Cursor::new(Vec::with_capacity(40 << 20));
    let mut w = match FlacSampleWriter::new(&mut cur, opts, 8000, 8, 1, declared.then_some(total)) {
        Ok(w) => w,
        Err(e) => return viol("header-untruthful:seektable", format!("constructor failed: {e:?}")),
    };
    let chunk = vec![0i32; 16 * 4096];
    let mut left = frames * 16;
    while left > 0 {
        let n = left.min(chunk.len());
        if let Err(e) = w.write(&chunk[..n]) {
            return viol("header-untruthful:seektable", format!("write failed: {e:?}"));
        }
        left -= n;
    }
    if frames > MAXP {
        probe("c09_more_frames_than_max_points");
    }
    if let Err(e) = w.finalize() {
        return viol("header-untruthful:seektable", format!("finalize failed with {frames} frames: {e:?}"));
    }
    let bytes = cur.into_inner();
    ctx.eval(frames as u64, true);
    let m = match refflac::parse_meta(&bytes, 0) {
        Ok(m) => m,
        Err(e) => return viol("header-untruthful:seektable", format!("metadata unparseable: {e:?}")),
    };
    if m.si.total != total {
        return viol("header-untruthful:total", format!("total {} != {}", m.si.total, total));
    }
    let Some(pts) = &m.seektable else {
        if declared {
            return viol("seekpoint-untruthful", "declared length and seek table requested, but none written".to_string());
        }
        if roomy && (frames as u64).div_ceil(if ik >= 4 { 500 } else { ik.max(1) }) <= MAXP as u64 {
            return viol("seekpoint-untruthful", "seek table requested and the padding has room for all of it, but none written".to_string());
        }
        probe("c09_no_room_for_table");
        return Ok(());
    };
    // every defined point names a frame: all frames are 16 silent samples, so frame k starts at
    // sample 16k; its byte offset is checked by parsing a frame header there
    let mut prev: Option<u64> = None;
    let mut seen_placeholder = false;
    let defined: Vec<(u64, u64, u16)> = pts.iter().copied().filter(|p| p.0 != u64::MAX).collect();
    for (i, &(s, o, n)) in pts.iter().enumerate() {
        if s == u64::MAX {
            seen_placeholder = true;
            continue;
        }
        if seen_placeholder {
            return viol("seekpoint-untruthful", format!("defined point {i} after a placeholder"));
        }
        if prev.is_some_and(|p| s <= p) {
            return viol("seekpoint-untruthful", format!("point {i} sample {s} not ascending"));
        }
        prev = Some(s);
        if s % 16 != 0 || s >= total || n != 16 {
            return viol("seekpoint-untruthful", format!("point {i} ({s},{o},{n}) does not name a frame of this stream"));
        }
        // a full parse of a sample of the points, a sync-code look at all of them
        let at = m.audio_start + o as usize;
        if bytes.get(at) != Some(&0xFF) || bytes.get(at + 1).map(|b| b & 0xFE) != Some(0xF8) {
            return viol("seekpoint-untruthful", format!("point {i} ({s},{o},{n}): no frame starts at byte offset {o}"));
        }
        if i % 4099 == 0 || i + 1 == defined.len() {
            match refflac::parse_frame(&bytes, at, Some(&m.si)) {
                Ok(f) if f.number == s / 16 && f.block_size == n as u32 => {}
                other => return viol("seekpoint-untruthful", format!("point ({s},{o},{n}) does not name a frame: {:?}", other.map(|f| (f.number, f.block_size)))),
            }
        }
    }
    // regenerating from the finished file with the same interval gives the same defined points
    match flac_codec::encode::generate_seektable(std::io::Cursor::new(&bytes), interval) {
        Ok(t) => {
            let regen: Vec<(u64, u64, u16)> = t
                .points
                .iter()
                .filter_map(|p| match p {
                    SeekPoint::Defined { sample_offset, byte_offset, frame_samples } => Some((*sample_offset, *byte_offset, *frame_samples)),
                    _ => None,
                })
                .collect();
            if regen != defined {
                let at = regen.iter().zip(&defined).position(|(a, b)| a != b);
                return viol(
                    "seekpoint-untruthful",
                    format!("{what}, {frames} frames: regenerated table differs: written {} defined points, regenerated {}, first difference at {at:?}", defined.len(), regen.len()),
                );
            }
            probe("c09_big_regenerated_equal");
        }
        Err(e) => return viol("seekpoint-untruthful", format!("generate_seektable failed on the finished file: {e:?}")),
    }
    // and the points are the ones the interval rule selects from the frame sequence, up to capacity
    let step: u64 = match ik {
        0 | 1 => 1,
        2 => 2,
        3 => 3,
        _ => 500,
    };
    let want = ((frames as u64).div_ceil(step) as usize).min(MAXP);
    if defined.len() != want || defined.iter().enumerate().any(|(i, p)| p.0 != i as u64 * step * 16) {
        return viol("seekpoint-untruthful", format!("{what}, {frames} frames: {} defined points, the interval selects {want}", defined.len()));
    }
    Ok(())
}


/// C02 with more than a million frames: the coded frame number passes from three to four and from four
/// to five bytes (0x1_0000, 0x20_0000); every frame header is judged by refflac, in particular the
/// shortest-form rule of the coded number and consecutive numbering.
pub fn run_c02_big(ctx: &mut Ctx) -> R {
    use flac_codec::encode::{FlacSampleWriter, Options};
    let ch = ctx.ch.clone();
    let frames: usize = *ch.pick("c02big.frames", &[0x10_0000usize + 64, 0x20_0000 + 40, 0x10_0000 + 64, 0x1_0000 + 20, 0x20_0000 + 40]);
    let stream = ch.draw("c02big.front", 2) == 1;
    ctx.describe(|| format!("{frames} frames of 16 samples, mono 8-bit, {}", if stream { "FlacStreamWriter" } else { "FlacSampleWriter, undeclared length, no seek table" }));
    let opts = Options::default().block_size(16).unwrap().no_seektable().max_lpc_order(None).unwrap();
    let mut cur = std::io::Cursor::new(Vec::with_capacity(40 << 20));
    let block = [0i32; 16];
    if stream {
        let mut w = flac_codec::encode::FlacStreamWriter::new(&mut cur, opts);
        for i in 0..frames {
            if let Err(e) = w.write(8000, 1, 8, &block) {
                return viol("encode-failed", format!("stream writer refused frame {i}: {e:?}"));
            }
        }
    } else {
        let mut w = match FlacSampleWriter::new(&mut cur, opts, 8000, 8, 1, None) {
            Ok(w) => w,
            Err(e) => return viol("encode-failed", format!("constructor failed: {e:?}")),
        };
        let chunk = vec![0i32; 16 * 4096];
        let mut left = frames * 16;
        while left > 0 {
            let n = left.min(chunk.len());
            if let Err(e) = w.write(&chunk[..n]) {
                return viol("encode-failed", format!("write failed: {e:?}"));
            }
            left -= n;
        }
        if let Err(e) = w.finalize() {
            return viol("encode-failed", format!("finalize failed with {frames} frames: {e:?}"));
        }
    }
    let bytes = cur.into_inner();
    probe("c02_more_than_a_million_frames");
    ctx.eval(frames as u64, true);
    let (mut pos, si) = if stream {
        (0, None)
    } else {
        match refflac::parse_meta(&bytes, 0) {
            Ok(m) => (m.audio_start, Some(m.si)),
            Err(e) => return viol("nonconforming:stream", format!("metadata unparseable: {e:?}")),
        }
    };
    let mut n = 0u64;
    while pos < bytes.len() {
        match refflac::parse_frame(&bytes, pos, si.as_ref()) {
            Ok(f) => {
                if f.number != n {
                    return viol("nonconforming:stream", format!("frame {n} carries the coded number {}", f.number));
                }
                if let Some(x) = f.strict.first() {
                    return viol("nonconforming:rule", format!("frame {n} (at byte {pos}): {x}"));
                }
                if f.block_size != 16 || f.samples.iter().any(|c| c.len() != 16 || c.iter().any(|&v| v != 0)) {
                    return viol("not-lossless", format!("frame {n} does not decode to 16 silent samples"));
                }
                pos = f.end;
                n += 1;
            }
            Err(e) => return viol("nonconforming:stream", format!("frame {n} at byte {pos} is not a valid frame: {e:?}")),
        }
    }
    if n != frames as u64 {
        return viol("nonconforming:stream", format!("{frames} frames written, {n} found"));
    }
    Ok(())
}

/// The deterministic short-length sweep of DESIGN 3/C01: every stream length 1..=70 for a drawn
/// (block 16/32, max LPC order, low-amplitude signal family, mono/stereo) cell — the region where the
/// final block is shorter than twice the predictor order. Judged by the crate's decoder (C01) or by
/// refflac (C02).
/// Block sizes and final-frame lengths in the neighbourhood of every entry of the frame header's
/// block-size code table (and of the 8-bit / 16-bit uncommon-size boundaries): a size that is coded
/// through the table, one that just misses it, a final frame whose length happens to be a table value.
/// Cheap signals, one or two channels; the same oracles as the round-trip world.
pub fn run_sizes(ctx: &mut Ctx) -> R {
    let ch = ctx.ch.clone();
    const TABLE: &[u32] = &[192, 576, 1152, 2304, 4608, 256, 512, 1024, 2048, 4096, 8192, 16384, 32768, 16, 65535, 257];
    let t = *ch.pick("sz.table", TABLE);
    let d = ch.draw("sz.delta", 5) as i64 - 2;
    let size = (t as i64 + d).clamp(16, 65535) as u16;
    let mut cfg = draw_cfg(&ch, true);
    cfg.channels = 1 + ch.draw("sz.ch", 2) as u8;
    cfg.bps = *ch.pick("sz.bps", &[16u32, 8, 24, 12]);
    cfg.lpc = *ch.pick("sz.lpc", &[None, Some(2u8), Some(8)]);
    cfg.part = ch.draw("sz.part", 4) as u32;
    cfg.offset = 0;
    cfg.tags = 0;
    cfg.seek = *ch.pick("sz.seek", &[SeekPolicy::Off, SeekPolicy::Frames(1)]);
    // the sample rate from the neighbourhood of every way of coding it in a frame header: the eleven
    // table rates +-1 and +-10, the limits of the 8-bit kHz, 16-bit Hz and 16-bit tens-of-Hz fields
    {
        const RT: &[u32] = &[88200, 176400, 192000, 8000, 16000, 22050, 24000, 32000, 44100, 48000, 96000, 255000, 65535, 655350, 1000, 10, 1048575];
        let t = *ch.pick("sz.rate.table", RT) as i64;
        let d = *ch.pick("sz.rate.delta", &[0i64, 0, 1, -1, 10, -10, 1000, -1000, 5]);
        cfg.rate = (t + d).clamp(1, 1048575) as u32;
    }
    // mode 0: the size is the stream's block size; mode 1: it is the length of the final frame of a
    // stream with a larger block size
    let mode = ch.draw("sz.mode", 5) % 3;
    let frames = if mode == 2 {
        // many short frames: the coded frame number crosses its 1/2/3/4-byte boundaries
        cfg.block = 16;
        cfg.channels = 1;
        cfg.bps = 8;
        cfg.seek = SeekPolicy::Off;
        probe("sizes_frame_number_crosses_utf8_length_boundary");
        16 * *ch.pick("sz.many", &[130usize, 2050, 130, 2050, 65540]) + ch.draw("sz.many.rem", 16) as usize
    } else if mode == 0 {
        cfg.block = size;
        let full = 1 + ch.draw("sz.full", 2) as usize;
        full * size as usize + *ch.pick("sz.rem", &[0usize, 1, 15, 16]) % size as usize
    } else {
        let big = (size as u32 + 1 + *ch.pick("sz.bigger", &[0u32, 1, 100, 3584, 30000])).min(65535) as u16;
        if big <= size {
            ctx.eval(0, false);
            return Ok(());
        }
        cfg.block = big;
        probe("sizes_final_frame_length_from_table_neighbourhood");
        big as usize + size as usize
    };
    if frames * cfg.channels as usize > 400_000 {
        cfg.channels = 1;
    }
    // the padding block sized to within a few bytes of what the seek table written at finalize needs
    // (4-byte block header + 18 bytes per point), for lengths discovered at finalize
    if mode != 2 && ch.draw("sz.padfit", 3) == 2 {
        let nfr = frames.div_ceil(cfg.block as usize);
        let every = 1 + ch.draw("sz.padfit.every", 2) as usize;
        cfg.seek = SeekPolicy::Frames(every);
        cfg.declare_total = ch.draw("sz.padfit.declared", 4) == 3;
        let points = nfr.div_ceil(every);
        let want = 4 + 18 * points as i64 + (ch.draw("sz.padfit.delta", 9) as i64 - 4);
        cfg.padding = Some(want.max(0) as u32);
        probe("sizes_padding_fits_seektable_within_4_bytes");
    }
    // cheap signal: silence, a constant, a slow ramp or small noise
    let fam = *ch.pick("sz.fam", &[0u64, 1, 3, 5]);
    let mut rng = crate::rng::Xoshiro::new(ch.raw("sz.sig"));
    let chans: Vec<Vec<i32>> = (0..cfg.channels).map(|_| gen_channel(fam, &mut rng, frames, cfg.bps)).collect();
    let mut inter = Vec::with_capacity(frames * cfg.channels as usize);
    for i in 0..frames {
        for c in &chans {
            inter.push(c[i]);
        }
    }
    let pcm = Pcm { channels: cfg.channels as usize, bps: cfg.bps, frames, inter };
    let kind = draw_wkind(&ch);
    let chunks = draw_write_chunks(&ch, kind, &pcm);
    let p = RtParams { cfg, pcm, kind, chunks, wben: Benign::none(), wcap: 8192 };
    describe(ctx, &p);
    probe("sizes_block_size_table_neighbourhood");
    let enc = match encode_to_disk(ctx, &p) {
        Ok(e) => e,
        Err(e) => {
            ctx.eval(0, true);
            if ctx.is("C01") {
                return viol("encode-failed", format!("valid input refused/failed at {}: {}", e.stage, e.err));
            }
            ctx.skip_foreign(format!("encode failed at {}: {} (C01's matter)", e.stage, e.err));
            return Ok(());
        }
    };
    let r = match ctx.prop.as_str() {
        "C01" => check_c01(ctx, &enc, &ch),
        "C02" => check_c02(ctx, &enc),
        "C09" => check_c09(ctx, &enc),
        "C19" => check_c19(ctx, &enc),
        "C17" => crate::scen_c17::check_clean(ctx, &enc),
        _ => Ok(()),
    };
    let nontrivial = ctx.disk.0.borrow().frame_sized_transfers > 0;
    ctx.eval(0, nontrivial);
    r
}

pub fn run_short_sweep(ctx: &mut Ctx) -> R {
    use flac_codec::encode::FlacSampleWriter;
    let ch = ctx.ch.clone();
    let block = *ch.pick("ss.block", &[16u16, 32]);
    let lpc = *ch.pick("ss.lpc", &[None, Some(1u8), Some(2), Some(4), Some(8), Some(12), Some(32)]);
    let fam = *ch.pick("ss.fam", &[3u64, 5, 10, 9, 7, 1]);
    let channels = 1 + ch.draw("ss.ch", 2) as u8;
    let bps = *ch.pick("ss.bps", &[16u32, 8, 24, 4, 12]);
    let part = *ch.pick("ss.part", &[5u32, 0, 1, 2, 3, 4, 15]);
    let seed = ch.raw("ss.sig");
    let cfg = Cfg {
        channels,
        bps,
        rate: 44100,
        block,
        lpc,
        part,
        mid_side: ch.draw("ss.ms", 2) == 0,
        fast: ch.draw("ss.fast", 2) == 1,
        win: Win::Tukey(0.5),
        declare_total: ch.draw("ss.declare", 2) == 1,
        seek: SeekPolicy::Off,
        padding: None,
        offset: 0,
        tags: 0,
    };
    ctx.describe(|| format!("every length 1..=70: {} family={fam}", cfg.describe()));
    probe("short_length_sweep_cell");
    for len in 1..=70usize {
        let mut rng = crate::rng::Xoshiro::new(seed ^ len as u64);
        let chans: Vec<Vec<i32>> = (0..channels).map(|_| gen_channel(fam, &mut rng, len, bps)).collect();
        let mut inter = Vec::with_capacity(len * channels as usize);
        for i in 0..len {
            for c in &chans {
                inter.push(c[i]);
            }
        }
        let mut cur = std::io::Cursor::new(Vec::new());
        let declared = cfg.declare_total.then_some(inter.len() as u64);
        let r = FlacSampleWriter::new(&mut cur, cfg.options(), cfg.rate, cfg.bps, cfg.channels, declared).and_then(|mut w| {
            w.write(&inter)?;
            w.finalize()
        });
        ctx.eval_fp(crate::rng::mix(len as u64, r.is_ok() as u64), true);
        if let Err(e) = r {
            if ctx.is("C01") {
                return viol("encode-failed", format!("length {len}: valid input refused: {e:?}"));
            }
            continue;
        }
        let bytes = cur.into_inner();
        if ctx.is("C01") {
            let d = decode_all(std::io::Cursor::new(&bytes), RKind::SampleToEnd, &ch, block as usize);
            if d.err.is_some() || d.samples != inter {
                return viol("not-lossless", format!("length {len} ({} samples): decoded {} samples, error {:?}", inter.len(), d.samples.len(), d.err));
            }
        } else {
            match refflac::parse_stream(&bytes, 0) {
                Ok(s) => {
                    if !s.is_valid() || s.pcm() != inter {
                        return viol("nonconforming:frame", format!("length {len}: {:?} {:?}", s.end, s.hard.first()));
                    }
                    if let Some(x) = s.strict.first() {
                        return viol("nonconforming:rule", format!("length {len}: {x}"));
                    }
                }
                Err(e) => return viol("nonconforming:metadata", format!("length {len}: {e:?}")),
            }
        }
    }
    Ok(())
}
