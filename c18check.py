"""C18 — multithreaded encoding equals single-threaded encoding.

Engine: the c18sim driver built (a) natively without features = serial reference, (b) natively
with flac-codec's `rayon` feature = uncontrolled supplement, (c) under Miri with the feature,
where `-Zmiri-seed` / `-Zmiri-many-seeds` make every thread interleaving of the *real*
rayon-core / crossbeam code a deterministic function of the seed.
"""
import json, os, subprocess, sys, time

ROOT = os.path.dirname(os.path.abspath(__file__))
C18 = os.path.join(ROOT, "c18")
REPO = os.environ.get("VERIF_REPO", "/repo").rstrip("/") or "/repo"
EVID_DIR = os.path.join(os.path.dirname(os.path.abspath(__file__)), "evidence") if REPO == "/repo" else os.path.join(os.path.dirname(os.path.abspath(__file__)), "sim", "target", "alt", "evidence")
if REPO != "/repo":
    # scratch copy of the repository (seeded changes): a generated manifest with its own target dirs
    import hashlib, shutil
    _alt = os.path.join(C18, "target", "alt", hashlib.md5(REPO.encode()).hexdigest()[:10])
    os.makedirs(os.path.join(_alt, ".cargo"), exist_ok=True)
    _m = open(os.path.join(C18, "Cargo.toml")).read().replace('path = "/repo"', f'path = "{REPO}"')
    open(os.path.join(_alt, "Cargo.toml"), "w").write(_m)
    for _f in ("Cargo.lock", ".cargo/config.toml"):
        shutil.copyfile(os.path.join(C18, _f), os.path.join(_alt, _f))
    if not os.path.islink(os.path.join(_alt, "src")):
        os.symlink(os.path.join(C18, "src"), os.path.join(_alt, "src"))
    os.makedirs(os.path.join(_alt, "shimbuild", ".cargo"), exist_ok=True)
    _ms = (open(os.path.join(C18, "shimbuild", "Cargo.toml")).read().replace('path = "/repo"', f'path = "{REPO}"')
           .replace('path = "../shim-rayon"', f'path = "{os.path.join(C18, "shim-rayon")}"'))
    open(os.path.join(_alt, "shimbuild", "Cargo.toml"), "w").write(_ms)
    shutil.copyfile(os.path.join(C18, "shimbuild", "Cargo.lock"), os.path.join(_alt, "shimbuild", "Cargo.lock"))
    shutil.copyfile(os.path.join(C18, ".cargo", "config.toml"), os.path.join(_alt, "shimbuild", ".cargo", "config.toml"))
    if not os.path.islink(os.path.join(_alt, "shimbuild", "src")):
        os.symlink(os.path.join(C18, "src"), os.path.join(_alt, "shimbuild", "src"))
    C18 = _alt
ENV = dict(os.environ, CARGO_NET_OFFLINE="true")
MIRIFLAGS = ("-Zmiri-disable-stacked-borrows -Zmiri-permissive-provenance -Zmiri-ignore-leaks "
             "-Zmiri-deterministic-floats")


class _TimedOut:
    """stands in for a CompletedProcess when a command did not finish (so that nothing waits forever)"""
    def __init__(self, e):
        self.returncode = -999
        self.stdout = (e.stdout.decode(errors="replace") if isinstance(e.stdout, bytes) else e.stdout) or ""
        self.stderr = "TIMEOUT after %s s: %s" % (e.timeout, " ".join(map(str, e.cmd))[:200])


def sh(cmd, env=None, timeout=None):
    try:
        return subprocess.run(cmd, cwd=C18, env=env or ENV, capture_output=True, text=True, timeout=timeout or 3600)
    except subprocess.TimeoutExpired as e:
        return _TimedOut(e)


def build():
    for name, extra in (("serial", []), ("par", ["--features", "par"])):
        r = sh(["cargo", "build", "--offline", "--quiet", "--release", "--target-dir", f"target/{name}"] + extra)
        if r.returncode != 0:
            print(r.stderr[-4000:])
            print("HARNESS-ERROR: c18sim build failed")
            sys.exit(2)


def build_shim():
    r = subprocess.run(["cargo", "build", "--offline", "--quiet", "--release", "--features", "par", "--target-dir", "../target/shim"],
                       cwd=os.path.join(C18, "shimbuild"), env=ENV, capture_output=True, text=True)
    if r.returncode != 0:
        # a change that uses a rayon API the shim does not provide: the shim engine is skipped (said so in
        # the evidence), the Miri and native engines still run
        return r.stderr[-1500:]
    return None


def shim_run(first, count, sched_seed):
    env = dict(ENV, C18_SCHED_SEED=str(sched_seed))
    r = subprocess.run([os.path.join(C18, "target", "shim", "release", "c18sim"), str(first), "4", "full", str(count)],
                       cwd=C18, env=env, capture_output=True, text=True)
    return (outs(r.stdout) if r.returncode == 0 else None), r.stderr[-300:]


import re
_OUT = re.compile(r"OUT (\d+) (\d+) ([0-9a-f]*)(?: \| ([^\n]*?))?(?=OUT |\n|$)")


def outs(text):
    """all results in `text`; tolerant of lines torn by concurrently printing Miri seeds (a torn line
    simply does not parse as a complete result: hex length must match the printed byte count)"""
    res = []
    for m in _OUT.finditer(text):
        ident, n, hx, desc = int(m.group(1)), int(m.group(2)), m.group(3), (m.group(4) or "")
        if len(hx) == 2 * n:
            res.append((ident, hx, desc))
    return res


def native(kind, first, count, pool, tiny):
    r = sh([f"target/{kind}/release/c18sim", str(first), str(pool), "tiny" if tiny else "full", str(count)])
    if r.returncode != 0:
        return None, r.stderr[-500:]
    return outs(r.stdout), ""


def miri(input_id, pool, rate, seeds, single=None):
    flags = f"{MIRIFLAGS} -Zmiri-preemption-rate={rate} "
    flags += f"-Zmiri-seed={single}" if single is not None else f"-Zmiri-many-seeds={seeds[0]}..{seeds[1]}"
    env = dict(ENV, MIRIFLAGS=flags, CARGO_TARGET_DIR=os.path.join(C18, "target", "miri"))
    r = sh(["cargo", "+nightly", "miri", "run", "--offline", "--quiet", "--features", "par", "--",
            str(input_id), str(pool), "tiny", "1"], env=env, timeout=3600)
    return outs(r.stdout), r.returncode, r.stderr[-1500:]


def main(prop, tier, seed):
    t0 = time.time()
    os.makedirs(EVID_DIR, exist_ok=True)
    os.makedirs(os.path.join(ROOT, "replays"), exist_ok=True)
    build()
    violations = []
    samples = []
    # ---- controlled schedules under Miri
    if tier == "quick":
        inputs = [seed * 1000 + k for k in (0, 1, 3, 4)][:3]       # stereo-exhaustive, vec_map, mono(+raw)
        plans = [(i, 2 + (n % 2), "0.1", (0, 10)) for n, i in enumerate(inputs)]
    else:
        inputs = [seed * 1000 + k for k in range(12)]
        plans = []
        for n, i in enumerate(inputs):
            for pool in (2, 3, 4):
                plans.append((i, pool, ("0.01", "0.1", "0.5")[(n + pool) % 3], (0, 16)))
    miri_runs = 0
    paths = {"mono": 0, "stereo_exhaustive": 0, "stereo_fast": 0, "vec_map": 0}
    tuples = set()
    for (inp, pool, rate, (a, b)) in plans:
        ref, err = native("serial", inp, 1, 1, True)
        if ref is None:
            print(f"HARNESS-ERROR: serial driver failed: {err}")
            return 2
        want = ref[0][1]
        desc = ref[0][2]
        got, rc, stderr = miri(inp, pool, rate, (a, b))
        if rc != 0 and not got:
            print(stderr)
            print("HARNESS-ERROR: miri run failed")
            return 2
        kind = ("stereo_exhaustive", "vec_map", "stereo_fast", "mono")[inp % 4]
        paths[kind] += len(got)
        miri_runs += len(got)
        for s in range(a, b):
            tuples.add((inp, pool, rate, s))
        if len(samples) < 4:
            samples.append(dict(input=desc, pool_threads=pool, preemption_rate=rate, miri_seeds=f"{a}..{b}",
                                bytes=len(want) // 2, identical_outputs=len(got)))
        bad = [g for g in got if g[1] != want]
        if bad or len(got) != b - a:
            # the seeds of a many-seeds run print concurrently and may tear each other's lines, so a
            # mismatch or a missing line is only a suspicion: re-run the seeds one by one (exact, serial)
            culprit = None
            for s in range(a, b):
                g1, rc1, _ = miri(inp, pool, rate, None, single=s)
                if not g1 or g1[0][1] != want:
                    culprit = s
                    bad = g1 or bad
                    break
            if culprit is None:
                continue
            path = os.path.join(ROOT, "replays", f"C18-miri-input{inp}-pool{pool}-rate{rate}-seed{culprit}.json")
            json.dump(dict(property="C18", engine="miri", input=inp, desc=desc, pool=pool, preemption_rate=rate,
                           miri_seed=culprit, expected=want, got=(bad[0][1] if bad else "missing output / crash"),
                           replay_cmd=f"cd c18 && MIRIFLAGS='{MIRIFLAGS} -Zmiri-preemption-rate={rate} -Zmiri-seed={culprit}' "
                                      f"cargo +nightly miri run --features par -- {inp} {pool} tiny 1"),
                      open(path, "w"), indent=1)
            violations.append(path)
            print(f"  schedule-dependent-output: input {inp} pool {pool} rate {rate} seed {culprit}")
            print(f"VIOLATION property=C18 replay={path}")
    # ---- controlled task-level schedules: the seeded shim scheduler in place of the thread pool
    from concurrent.futures import ThreadPoolExecutor
    shim_err = build_shim()
    shim_runs = 0
    shim_seeds = 0
    n_inputs = 200 if tier == "quick" else 3000
    n_seeds = 16 if tier == "quick" else 64
    first = seed * 100000
    if shim_err is None:
        ref, err = native("serial", first, n_inputs, 1, False)
        if ref is None:
            print(f"HARNESS-ERROR: serial driver failed: {err}")
            return 2
        seeds = [seed * 7919 + k for k in range(n_seeds)]
        with ThreadPoolExecutor(max_workers=16) as ex:
            results = list(ex.map(lambda s: (s, shim_run(first, n_inputs, s)), seeds))
        for s_, (got, err) in results:
            if got is None:
                print(f"HARNESS-ERROR: shim driver failed at schedule seed {s_}: {err}")
                return 2
            shim_seeds += 1
            for (r_, g_) in zip(ref, got):
                shim_runs += 1
                if r_[1] != g_[1]:
                    path = os.path.join(ROOT, "replays", f"C18-shim-input{r_[0]}-sched{s_}.json")
                    json.dump(dict(property="C18", engine="shim (seeded task-level scheduler; exactly replayable)", input=r_[0], desc=r_[2],
                                   schedule_seed=s_, expected=r_[1], got=g_[1],
                                   replay_cmd=f"C18_SCHED_SEED={s_} {os.path.join(C18, 'target/shim/release/c18sim')} {r_[0]} 4 full 1  # compare with target/serial/release/c18sim {r_[0]} 1 full 1"),
                              open(path, "w"), indent=1)
                    violations.append(path)
                    print(f"  schedule-dependent-output: input {r_[0]} under task schedule seed {s_} ({r_[2].strip()})")
                    print(f"VIOLATION property=C18 replay={path}")
                    break
            if len(violations) >= 3:
                break
        if len(samples) < 6:
            samples.append(dict(engine="shim", inputs=f"{first}..{first + n_inputs}", schedule_seeds=f"{seeds[0]}..{seeds[-1]}",
                                example_input=ref[0][2].strip()))
    else:
        print("NOTE: the rayon shim does not compile against this tree (an API outside its subset is used); shim engine skipped")
    # ---- uncontrolled native supplement: larger inputs, many pool sizes
    n_native = 300 if tier == "quick" else 6000
    ref, err = native("serial", seed * 100000, n_native, 1, False)
    native_cmp = 0
    if ref is None:
        print(f"HARNESS-ERROR: serial driver failed: {err}")
        return 2
    for pool in ((1, 2, 5, 16) if tier == "quick" else (1, 2, 3, 4, 6, 8, 12, 16)):
        got, err = native("par", seed * 100000, n_native, pool, False)
        if got is None:
            print(f"HARNESS-ERROR: rayon driver failed: {err}")
            return 2
        for (r_, g_) in zip(ref, got):
            native_cmp += 1
            if r_[1] != g_[1]:
                path = os.path.join(ROOT, "replays", f"C18-native-input{r_[0]}-pool{pool}.json")
                json.dump(dict(property="C18", engine="native (schedule not controlled; not exactly replayable)", input=r_[0],
                               desc=r_[2], pool=pool, expected=r_[1], got=g_[1]), open(path, "w"), indent=1)
                violations.append(path)
                print(f"  schedule-dependent-output (native, uncontrolled): input {r_[0]} pool {pool}")
                print(f"VIOLATION property=C18 replay={path}")
                break
    wall = time.time() - t0
    evid = {
        "property_id": "C18", "tier": tier, "seed": seed, "level": "exploration",
        "coverage": {
            "evaluations": miri_runs + shim_runs + native_cmp,
            "distinct_nontrivial": len(tuples) + shim_runs,
            "rule": ("two controlled engines and one uncontrolled supplement, every output compared byte for byte with the build "
                     "without the feature. (miri) one evaluation = one encode of a tiny input by the REAL rayon pool interpreted by "
                     "Miri, whose seeded preemptive scheduler fixes the interleaving; distinct = distinct (input, pool size, "
                     "preemption rate, Miri seed) tuples. (shim) one evaluation = one encode of a full-size input with the rayon "
                     "API served by a seeded single-threaded task scheduler that draws task order of join / parallel iterators, "
                     "completion order and par_bridge order from the schedule seed; distinct = distinct (input, schedule seed) "
                     "pairs. Counted are schedules requested, not schedules proven different (that would need instrumenting "
                     "rayon). All inputs are non-trivial (>= 1 frame through a join or vec_map path). (native) real rayon, "
                     "schedules not controlled: counted in evaluations only"),
            "samples": samples,
            "exhaustive": False,
            "miri_controlled_runs": miri_runs,
            "shim_controlled_runs": shim_runs,
            "shim_schedule_seeds": shim_seeds,
            "shim_engine_skipped_reason": shim_err,
            "native_uncontrolled_comparisons": native_cmp,
            "paths_taken_under_miri": paths,
            "pool_sizes": sorted({p[1] for p in plans}),
            "preemption_rates": sorted({p[2] for p in plans}),
            "runs_per_hour": int(miri_runs / max(wall, 1e-3) * 3600),
            "real_components": ["flac-codec with feature rayon", "rayon", "rayon-core", "crossbeam-deque/epoch/utils", "std threads (interpreted by Miri)"],
            "stub_components": ["thread scheduler (Miri, seeded)", "shim engine: the rayon crate itself (seeded task scheduler, /verif/c18/shim-rayon)", "in-memory sink (Cursor<Vec<u8>>)"],
            "fault_kinds": {"preemption at arbitrary points (Miri scheduler)": miri_runs},
        },
        "assumptions": ["Miri's scheduler explores preemptive interleavings of the interpreted program; weak-memory emulation on",
                        "aliasing checks are off (crossbeam-epoch trips Stacked Borrows); Miri is used as a scheduler only"],
        "wall_s": round(wall, 2),
        "violations": len(violations),
    }
    json.dump(evid, open(os.path.join(EVID_DIR, "C18.json"), "w"), indent=1)
    print(f"[C18 {tier}] miri_runs={miri_runs} shim_runs={shim_runs} distinct_schedule_tuples={len(tuples) + shim_runs} native_comparisons={native_cmp} "
          f"violations={len(violations)} wall={wall:.1f}s")
    return 1 if violations else 0
