#!/bin/sh
# runs every registered thorough check at the given seeds; prints the summary line and any alarm
# usage: tools/thoroughsweep.sh <first_seed> <last_seed> [props...]
A=${1:-2}; B=${2:-2}; shift; shift
PROPS=${*:-C13 C14 C15 C11 C16 C05 C04 C06 C07 C19 C02 C09 C08 C17 C10 C01 C18}
./check setup >/dev/null 2>&1 || { echo "setup failed"; exit 2; }
bad=0
for s in $(seq $A $B); do
  for p in $PROPS; do
    out=$(VERIF_SEED=$s ./check $p thorough 2>&1); rc=$?
    echo "$out" | tail -1
    if [ $rc -ne 0 ]; then bad=$((bad+1)); echo "ALARM $p seed=$s rc=$rc"; echo "$out" | grep -E "VIOLATION|^  \[|HARNESS|WARNING" | head -8; fi
  done
done
echo "THOROUGHSWEEP FINISHED alarms=$bad"
