#!/bin/sh
# runs every registered quick check at many seeds; prints only the summary line and any alarm
# usage: tools/seedsweep.sh [first_seed] [last_seed] [props...]
A=${1:-2}; B=${2:-21}; shift; shift
PROPS=${*:-C01 C02 C04 C05 C06 C07 C08 C09 C10 C11 C13 C14 C15 C16 C17 C19 C18}
./check setup >/dev/null 2>&1 || { echo "setup failed"; exit 2; }
bad=0
for p in $PROPS; do
  for s in $(seq $A $B); do
    out=$(VERIF_SEED=$s ./check $p quick 2>&1); rc=$?
    if [ $rc -ne 0 ]; then bad=$((bad+1)); echo "ALARM $p seed=$s rc=$rc"; echo "$out" | grep -E "VIOLATION|^  \[|HARNESS" | head -6; fi
  done
  echo "done $p seeds $A..$B (alarms so far: $bad)"
done
echo "SEEDSWEEP FINISHED alarms=$bad"
