#!/bin/sh
# builds the three c18sim flavours (serial, rayon native, rayon under Miri incl. the Miri sysroot)
set -e
export CARGO_NET_OFFLINE=true
cargo build --offline --quiet --release --target-dir target/serial
cargo build --offline --quiet --release --features par --target-dir target/par
(cd shimbuild && cargo build --offline --quiet --release --features par --target-dir ../target/shim)
cargo +nightly miri setup >/dev/null 2>&1 || true
MIRIFLAGS="-Zmiri-disable-stacked-borrows -Zmiri-permissive-provenance -Zmiri-ignore-leaks -Zmiri-deterministic-floats -Zmiri-seed=0" \
  CARGO_TARGET_DIR=target/miri cargo +nightly miri run --offline --quiet --features par -- 3 2 tiny 1 >/dev/null
echo "c18 setup ok"
