//! c18sim — tiny encoder driver. Built twice: without features (serial reference) and with
//! `--features par` (flac-codec's rayon feature), the latter run natively and under Miri, whose
//! seeded scheduler decides every interleaving of the real rayon / crossbeam code.
//!
//!   c18sim <input-id> <pool-threads>      prints "OUT <len> <hex bytes>"

use flac_codec::encode::{FlacSampleWriter, FlacStreamWriter, Options};
use std::io::Cursor;

struct Rng(u64);
impl Rng {
    fn next(&mut self) -> u64 {
        self.0 = self.0.wrapping_add(0x9E3779B97F4A7C15);
        let mut z = self.0;
        z = (z ^ (z >> 30)).wrapping_mul(0xBF58476D1CE4E5B9);
        z = (z ^ (z >> 27)).wrapping_mul(0x94D049BB133111EB);
        z ^ (z >> 31)
    }
    fn below(&mut self, n: u64) -> u64 {
        self.next() % n
    }
}

pub struct Input {
    pub channels: u8,
    pub bps: u32,
    pub block: u16,
    pub lpc: Option<u8>,
    pub fast: bool,
    pub mid_side: bool,
    pub samples: Vec<i32>,
    pub desc: String,
}

pub fn input(id: u64, tiny: bool) -> Input {
    let mut r = Rng(id.wrapping_mul(0x2545F4914F6CDD1D) ^ 0xC18);
    // make sure mono, stereo-fast, stereo-exhaustive and the >2 channel (vec_map) paths all occur
    let channels = match id % 4 {
        0 => 2,
        1 => 3 + r.below(6) as u8,
        2 => 2,
        _ => 1,
    };
    let fast = id % 4 == 2;
    let bps = [16u32, 8, 24, 12][r.below(4) as usize];
    let block = 16 + r.below(if tiny { 5 } else { 200 }) as u16;
    let lpc = match r.below(3) {
        0 => None,
        _ => Some(1 + r.below(if tiny { 2 } else { 12 }) as u8),
    };
    let mid_side = r.below(2) == 0;
    let frames = if tiny { block as usize + r.below(6) as usize } else { block as usize * (1 + r.below(4) as usize) + r.below(block as u64) as usize };
    let amp = 1i64 << (bps - 2);
    let mut samples = Vec::with_capacity(frames * channels as usize);
    let mut prev = vec![0i64; channels as usize];
    // some channels are a non-zero constant (all-zero residuals: every partition order ties) or a
    // constant offset plus a tiny dither, the cases where a choice among equal candidates matters
    let flat: Vec<u64> = (0..channels).map(|_| r.below(4)).collect();
    let dc: Vec<i64> = (0..channels).map(|_| (r.below(amp as u64) as i64) - amp / 2).collect();
    for _ in 0..frames {
        for c in 0..channels as usize {
            if flat[c] == 0 {
                prev[c] = dc[c];
                samples.push(dc[c] as i32);
                continue;
            }
            if flat[c] == 1 {
                let v = (dc[c] + (r.below(2) as i64)).clamp(-amp, amp - 1);
                prev[c] = v;
                samples.push(v as i32);
                continue;
            }
            let step = (r.below(amp as u64 / 8 + 2) as i64) - (amp / 16);
            let v = if c == 1 && r.below(3) > 0 { prev[0] + (r.below(5) as i64 - 2) } else { (prev[c] + step).clamp(-amp, amp - 1) };
            let v = v.clamp(-amp, amp - 1);
            prev[c] = v;
            samples.push(v as i32);
        }
    }
    Input {
        desc: format!("id={id} ch={channels} bits={bps} block={block} lpc={lpc:?} fast={fast} mid_side={mid_side} pcm_frames={frames}"),
        channels,
        bps,
        block,
        lpc,
        fast,
        mid_side,
        samples,
    }
}

pub fn encode(i: &Input, tiny: bool, id: u64) -> Vec<u8> {
    let opts = Options::default()
        .block_size(i.block)
        .unwrap()
        .max_lpc_order(i.lpc)
        .unwrap()
        .fast_channel_correlation(i.fast)
        .mid_side(i.mid_side)
        .padding(16)
        .unwrap()
        .seektable_frames(1);
    let mut out = Cursor::new(Vec::new());
    // under Miri (tiny) alternate between the file writer and the raw stream writer to halve the work
    let do_file = !tiny || (id / 4) % 2 == 0;
    let do_raw = !tiny || (id / 4) % 2 == 1;
    if do_file {
        let mut w = FlacSampleWriter::new(&mut out, opts.clone(), 44100, i.bps, i.channels, None).expect("writer");
        w.write(&i.samples).expect("write");
        w.finalize().expect("finalize");
    }
    let mut bytes = out.into_inner();
    // and the same audio as one raw frame per block through the stream writer
    if do_raw && matches!(i.bps, 8 | 12 | 16 | 20 | 24 | 32) {
        let mut raw = Vec::new();
        let mut sw = FlacStreamWriter::new(&mut raw, opts);
        for chunk in i.samples.chunks(i.block as usize * i.channels as usize) {
            sw.write(44100, i.channels, i.bps, chunk).expect("stream write");
        }
        bytes.extend_from_slice(&raw);
    }
    bytes
}

fn main() {
    let a: Vec<String> = std::env::args().collect();
    let id: u64 = a.get(1).and_then(|s| s.parse().ok()).unwrap_or(0);
    let pool: usize = a.get(2).and_then(|s| s.parse().ok()).unwrap_or(2);
    let tiny = a.get(3).map(|s| s == "tiny").unwrap_or(false);
    let count: u64 = a.get(4).and_then(|s| s.parse().ok()).unwrap_or(1);
    #[cfg(feature = "par")]
    {
        rayon::ThreadPoolBuilder::new().num_threads(pool).build_global().expect("pool");
    }
    let _ = pool;
    for k in 0..count {
        let i = input(id + k, tiny);
        let bytes = encode(&i, tiny, id + k);
        let mut hex = String::with_capacity(bytes.len() * 2);
        for b in &bytes {
            hex.push_str(&format!("{b:02x}"));
        }
        // one write call per result line: seeds of a Miri many-seeds run share the process's stdout
        use std::io::Write;
        let line = format!("OUT {} {} {} | {}\n", id + k, bytes.len(), hex, i.desc);
        std::io::stdout().write_all(line.as_bytes()).expect("stdout");
    }
}
