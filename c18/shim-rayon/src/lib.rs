//! A deterministic stand-in for `rayon`, for C18.
//!
//! flac-codec's `#[cfg(feature = "rayon")]` code is compiled and run unchanged against this crate
//! (patched in with `[patch.crates-io]`). Where real rayon lets a pool of threads decide which task
//! runs when, which worker pulls which item of a `par_bridge`, in which order results complete and
//! how a reduction is associated, this shim runs every task to completion on the calling thread in
//! an order drawn from a PRNG seeded by `C18_SCHED_SEED`. One seed = one exactly repeatable
//! task-level schedule. It stays inside rayon's documented contract: indexed iterators keep their
//! order in `collect` and pick the left-most minimum; `par_bridge` has no order at all.
//!
//! What it cannot show: interleavings *inside* a task (those are Miri's part of the check).

use std::sync::atomic::{AtomicU64, Ordering};
use std::sync::{Arc, Once};

static STATE: AtomicU64 = AtomicU64::new(0x9E3779B97F4A7C15);
static INIT: Once = Once::new();
static SERIAL: AtomicU64 = AtomicU64::new(0);
static DECISIONS: AtomicU64 = AtomicU64::new(0);

fn init() {
    INIT.call_once(|| {
        let seed = std::env::var("C18_SCHED_SEED").ok().and_then(|s| s.parse::<u64>().ok());
        match seed {
            Some(s) => STATE.store(s.wrapping_mul(0x2545F4914F6CDD1D) ^ 0xD1B54A32D192ED03, Ordering::Relaxed),
            // no seed: behave exactly like the serial build (one thread)
            None => SERIAL.store(1, Ordering::Relaxed),
        }
    });
}

fn next() -> u64 {
    init();
    let mut x = STATE.load(Ordering::Relaxed).wrapping_add(0x9E3779B97F4A7C15);
    STATE.store(x, Ordering::Relaxed);
    x = (x ^ (x >> 30)).wrapping_mul(0xBF58476D1CE4E5B9);
    x = (x ^ (x >> 27)).wrapping_mul(0x94D049BB133111EB);
    x ^ (x >> 31)
}

fn below(n: usize) -> usize {
    init();
    if n <= 1 || SERIAL.load(Ordering::Relaxed) == 1 {
        return 0;
    }
    DECISIONS.fetch_add(1, Ordering::Relaxed);
    (next() % n as u64) as usize
}

/// number of scheduling decisions taken so far (for evidence)
pub fn shim_decisions() -> u64 {
    DECISIONS.load(Ordering::Relaxed)
}

/// a seeded permutation of 0..n (identity without a seed)
fn order(n: usize) -> Vec<usize> {
    let mut v: Vec<usize> = (0..n).collect();
    for i in (1..n).rev() {
        let j = below(i + 1);
        // `below` returns 0 in serial mode; keep identity then
        if SERIAL.load(Ordering::Relaxed) == 0 {
            v.swap(i, j);
        }
    }
    v
}

pub fn join<A, B, RA, RB>(oper_a: A, oper_b: B) -> (RA, RB)
where
    A: FnOnce() -> RA + Send,
    B: FnOnce() -> RB + Send,
    RA: Send,
    RB: Send,
{
    if below(2) == 0 {
        let a = oper_a();
        let b = oper_b();
        (a, b)
    } else {
        let b = oper_b();
        let a = oper_a();
        (a, b)
    }
}

pub fn current_num_threads() -> usize {
    4
}

#[derive(Default)]
pub struct ThreadPoolBuilder {
    n: usize,
}
#[derive(Debug)]
pub struct ThreadPoolBuildError;
impl std::fmt::Display for ThreadPoolBuildError {
    fn fmt(&self, f: &mut std::fmt::Formatter) -> std::fmt::Result {
        "thread pool build error".fmt(f)
    }
}
impl std::error::Error for ThreadPoolBuildError {}
impl ThreadPoolBuilder {
    pub fn new() -> Self {
        Self { n: 0 }
    }
    pub fn num_threads(mut self, n: usize) -> Self {
        self.n = n;
        self
    }
    pub fn build_global(self) -> Result<(), ThreadPoolBuildError> {
        Ok(())
    }
}

pub mod iter {
    use super::*;

    type Thunk<'a, T> = Box<dyn FnOnce() -> Option<T> + Send + 'a>;

    /// the one concrete parallel iterator: a list of per-item pipelines
    pub struct Par<'a, T> {
        pub(crate) items: Vec<Thunk<'a, T>>,
        /// false after `par_bridge`: results have no defined order
        pub(crate) ordered: bool,
    }

    impl<'a, T: Send + 'a> Par<'a, T> {
        pub(crate) fn from_vec(v: Vec<T>, ordered: bool) -> Self {
            Par {
                items: v.into_iter().map(|x| Box::new(move || Some(x)) as Thunk<'a, T>).collect(),
                ordered,
            }
        }
        /// runs every pipeline in a seeded order; returns (original index, result) in execution order
        pub(crate) fn run(self) -> (Vec<(usize, T)>, bool) {
            let ordered = self.ordered;
            let mut slots: Vec<Option<Thunk<'a, T>>> = self.items.into_iter().map(Some).collect();
            let mut out = Vec::with_capacity(slots.len());
            for i in order(slots.len()) {
                if let Some(t) = slots[i].take() {
                    if let Some(v) = t() {
                        out.push((i, v));
                    }
                }
            }
            (out, ordered)
        }
        /// results in the order rayon guarantees: index order if ordered, completion order if not
        pub(crate) fn results(self) -> Vec<T> {
            let (mut r, ordered) = self.run();
            if ordered {
                r.sort_by_key(|(i, _)| *i);
            }
            r.into_iter().map(|(_, v)| v).collect()
        }
    }

    /// a materialised source (Vec, slice references, range, bridged iterator)
    pub struct Src<T> {
        pub(crate) v: Vec<T>,
        pub(crate) ordered: bool,
    }
    impl<T: Send> ParallelIterator for Src<T> {
        type Item = T;
        fn into_par<'a>(self) -> Par<'a, T>
        where
            Self: 'a,
        {
            Par::from_vec(self.v, self.ordered)
        }
    }
    impl<T: Send> IndexedParallelIterator for Src<T> {}
    impl<T: Send> IntoParallelIterator for Src<T> {
        type Iter = Src<T>;
        type Item = T;
        fn into_par_iter(self) -> Self::Iter {
            self
        }
    }

    pub trait ParallelIterator: Sized + Send {
        type Item: Send;
        #[doc(hidden)]
        fn into_par<'a>(self) -> Par<'a, Self::Item>
        where
            Self: 'a;

        fn map<'a, F, R>(self, f: F) -> Par<'a, R>
        where
            Self: 'a,
            F: Fn(Self::Item) -> R + Sync + Send + 'a,
            R: Send + 'a,
        {
            let p = self.into_par();
            let f = Arc::new(f);
            Par {
                ordered: p.ordered,
                items: p
                    .items
                    .into_iter()
                    .map(|t| {
                        let f = f.clone();
                        Box::new(move || t().map(|x| f(x))) as Thunk<'a, R>
                    })
                    .collect(),
            }
        }
        fn filter<'a, F>(self, f: F) -> Par<'a, Self::Item>
        where
            Self: 'a,
            Self::Item: 'a,
            F: Fn(&Self::Item) -> bool + Sync + Send + 'a,
        {
            let p = self.into_par();
            let f = Arc::new(f);
            Par {
                ordered: p.ordered,
                items: p
                    .items
                    .into_iter()
                    .map(|t| {
                        let f = f.clone();
                        Box::new(move || t().filter(|x| f(x))) as Thunk<'a, Self::Item>
                    })
                    .collect(),
            }
        }
        fn filter_map<'a, F, R>(self, f: F) -> Par<'a, R>
        where
            Self: 'a,
            F: Fn(Self::Item) -> Option<R> + Sync + Send + 'a,
            R: Send + 'a,
        {
            let p = self.into_par();
            let f = Arc::new(f);
            Par {
                ordered: p.ordered,
                items: p
                    .items
                    .into_iter()
                    .map(|t| {
                        let f = f.clone();
                        Box::new(move || t().and_then(|x| f(x))) as Thunk<'a, R>
                    })
                    .collect(),
            }
        }
        fn enumerate<'a>(self) -> Par<'a, (usize, Self::Item)>
        where
            Self: 'a,
            Self::Item: 'a,
        {
            let p = self.into_par();
            Par {
                ordered: p.ordered,
                items: p
                    .items
                    .into_iter()
                    .enumerate()
                    .map(|(i, t)| Box::new(move || t().map(|x| (i, x))) as Thunk<'a, (usize, Self::Item)>)
                    .collect(),
            }
        }
        fn for_each<'a, F>(self, f: F)
        where
            Self: 'a,
            Self::Item: 'a,
            F: Fn(Self::Item) + Sync + Send + 'a,
        {
            let _ = self.map(f).run();
        }
        fn try_for_each<'a, F, E>(self, f: F) -> Result<(), E>
        where
            Self: 'a,
            Self::Item: 'a,
            E: Send + 'a,
            F: Fn(Self::Item) -> Result<(), E> + Sync + Send + 'a,
        {
            let (r, _) = self.map(f).run();
            // which error is reported is unspecified in rayon: take the first in execution order
            for (_, x) in r {
                x?;
            }
            Ok(())
        }
        fn collect<'a, C>(self) -> C
        where
            Self: 'a,
            Self::Item: 'a,
            C: FromIterator<Self::Item>,
        {
            self.into_par().results().into_iter().collect()
        }
        fn count<'a>(self) -> usize
        where
            Self: 'a,
            Self::Item: 'a,
        {
            self.into_par().run().0.len()
        }
        fn sum<'a, S>(self) -> S
        where
            Self: 'a,
            Self::Item: 'a,
            S: std::iter::Sum<Self::Item>,
        {
            // association order is unspecified: sum in execution order
            self.into_par().run().0.into_iter().map(|(_, v)| v).sum()
        }
        /// rayon folds each split of the input separately and yields one accumulator per split; how
        /// the input is split depends on the pool and on work stealing: here the (ordered) results are
        /// cut into contiguous groups at seeded positions (one group without a seed, as one thread does)
        fn fold<'a, T, ID, F>(self, identity: ID, fold_op: F) -> Par<'a, T>
        where
            Self: 'a,
            Self::Item: 'a,
            T: Send + 'a,
            ID: Fn() -> T + Sync + Send + 'a,
            F: Fn(T, Self::Item) -> T + Sync + Send + 'a,
        {
            let p = self.into_par();
            let ordered = p.ordered;
            let items = p.results();
            let mut accs: Vec<T> = Vec::new();
            let mut cur: Option<T> = None;
            for x in items {
                let acc = cur.take().unwrap_or_else(&identity);
                cur = Some(fold_op(acc, x));
                // close the group here with probability 1/3
                if below(3) == 2 {
                    accs.push(cur.take().unwrap());
                }
            }
            if let Some(c) = cur {
                accs.push(c);
            }
            if accs.is_empty() {
                accs.push(identity());
            }
            Par::from_vec(accs, ordered)
        }
        fn cloned<'a, 'x, T>(self) -> Par<'a, T>
        where
            Self: ParallelIterator<Item = &'x T> + 'a,
            T: Clone + Send + Sync + 'a + 'x,
        {
            self.map(|x: &'x T| x.clone())
        }
        fn copied<'a, 'x, T>(self) -> Par<'a, T>
        where
            Self: ParallelIterator<Item = &'x T> + 'a,
            T: Copy + Send + Sync + 'a + 'x,
        {
            self.map(|x: &'x T| *x)
        }
        fn flat_map<'a, F, I>(self, f: F) -> Par<'a, I::Item>
        where
            Self: 'a,
            Self::Item: 'a,
            F: Fn(Self::Item) -> I + Sync + Send + 'a,
            I: IntoIterator + 'a,
            I::Item: Send + 'a,
        {
            let p = self.into_par();
            let ordered = p.ordered;
            let f = Arc::new(f);
            let groups: Vec<Vec<I::Item>> = Par {
                ordered,
                items: p
                    .items
                    .into_iter()
                    .map(|t| {
                        let f = f.clone();
                        Box::new(move || t().map(|x| f(x).into_iter().collect::<Vec<_>>())) as Thunk<'a, Vec<I::Item>>
                    })
                    .collect(),
            }
            .results();
            Par::from_vec(groups.into_iter().flatten().collect(), ordered)
        }
        fn reduce<'a, OP, ID>(self, identity: ID, op: OP) -> Self::Item
        where
            Self: 'a,
            Self::Item: 'a,
            OP: Fn(Self::Item, Self::Item) -> Self::Item + Sync + Send,
            ID: Fn() -> Self::Item + Sync + Send,
        {
            // operand order follows the item order (rayon splits contiguously) for ordered sources and
            // the completion order for bridged ones; extra identities may be folded in anywhere
            let r = self.into_par().results();
            let mut acc = identity();
            for x in r {
                acc = if below(8) == 7 { op(op(acc, identity()), x) } else { op(acc, x) };
            }
            acc
        }
        fn reduce_with<'a, OP>(self, op: OP) -> Option<Self::Item>
        where
            Self: 'a,
            Self::Item: 'a,
            OP: Fn(Self::Item, Self::Item) -> Self::Item + Sync + Send,
        {
            let mut it = self.into_par().results().into_iter();
            let first = it.next()?;
            Some(it.fold(first, |a, b| op(a, b)))
        }
        fn min_by_key<'a, K, F>(self, f: F) -> Option<Self::Item>
        where
            Self: 'a,
            Self::Item: 'a,
            K: Ord + Send,
            F: Fn(&Self::Item) -> K + Sync + Send,
        {
            // left-most minimum in the order `results` yields: index order for indexed sources
            // (deterministic, as in rayon), completion order after par_bridge
            let mut best: Option<(K, Self::Item)> = None;
            for x in self.into_par().results() {
                let k = f(&x);
                match &best {
                    Some((bk, _)) if *bk <= k => {}
                    _ => best = Some((k, x)),
                }
            }
            best.map(|(_, x)| x)
        }
        fn max_by_key<'a, K, F>(self, f: F) -> Option<Self::Item>
        where
            Self: 'a,
            Self::Item: 'a,
            K: Ord + Send,
            F: Fn(&Self::Item) -> K + Sync + Send,
        {
            // rayon keeps the right operand on ties: the last maximum
            let mut best: Option<(K, Self::Item)> = None;
            for x in self.into_par().results() {
                let k = f(&x);
                match &best {
                    Some((bk, _)) if *bk > k => {}
                    _ => best = Some((k, x)),
                }
            }
            best.map(|(_, x)| x)
        }
        fn min_by<'a, F>(self, f: F) -> Option<Self::Item>
        where
            Self: 'a,
            Self::Item: 'a,
            F: Fn(&Self::Item, &Self::Item) -> std::cmp::Ordering + Sync + Send,
        {
            let mut best: Option<Self::Item> = None;
            for x in self.into_par().results() {
                best = match best {
                    Some(b) if f(&b, &x) != std::cmp::Ordering::Greater => Some(b),
                    _ => Some(x),
                };
            }
            best
        }
        fn find_any<'a, P>(self, p: P) -> Option<Self::Item>
        where
            Self: 'a,
            Self::Item: 'a,
            P: Fn(&Self::Item) -> bool + Sync + Send + 'a,
        {
            self.filter(p).run().0.into_iter().next().map(|(_, v)| v)
        }
        fn find_first<'a, P>(self, p: P) -> Option<Self::Item>
        where
            Self: 'a,
            Self::Item: 'a,
            P: Fn(&Self::Item) -> bool + Sync + Send + 'a,
        {
            self.filter(p).results().into_iter().next()
        }
        fn any<'a, P>(self, p: P) -> bool
        where
            Self: 'a,
            Self::Item: 'a,
            P: Fn(Self::Item) -> bool + Sync + Send + 'a,
        {
            self.map(p).run().0.into_iter().any(|(_, b)| b)
        }
        fn all<'a, P>(self, p: P) -> bool
        where
            Self: 'a,
            Self::Item: 'a,
            P: Fn(Self::Item) -> bool + Sync + Send + 'a,
        {
            self.map(p).run().0.into_iter().all(|(_, b)| b)
        }
    }

    impl<'b, T: Send + 'b> ParallelIterator for Par<'b, T> {
        type Item = T;
        fn into_par<'a>(self) -> Par<'a, T>
        where
            Self: 'a,
        {
            // 'b: 'a holds because Self: 'a
            let Par { items, ordered } = self;
            Par {
                items: items.into_iter().map(|t| Box::new(move || t()) as Thunk<'a, T>).collect(),
                ordered,
            }
        }
    }

    /// indexed iterators support zip
    pub trait IndexedParallelIterator: ParallelIterator {
        fn zip<'a, Z>(self, other: Z) -> Par<'a, (Self::Item, Z::Item)>
        where
            Self: 'a,
            Self::Item: 'a,
            Z: IntoParallelIterator,
            Z::Iter: 'a,
            Z::Item: 'a,
        {
            let a = self.into_par();
            let b = other.into_par_iter().into_par();
            Par {
                ordered: true,
                items: a
                    .items
                    .into_iter()
                    .zip(b.items)
                    .map(|(x, y)| Box::new(move || Some((x()?, y()?))) as Thunk<'a, (Self::Item, Z::Item)>)
                    .collect(),
            }
        }
    }
    impl<'b, T: Send + 'b> IndexedParallelIterator for Par<'b, T> {}

    pub trait IntoParallelIterator {
        type Iter: ParallelIterator<Item = Self::Item>;
        type Item: Send;
        fn into_par_iter(self) -> Self::Iter;
    }
    impl<'b, T: Send + 'b> IntoParallelIterator for Par<'b, T> {
        type Iter = Par<'b, T>;
        type Item = T;
        fn into_par_iter(self) -> Self::Iter {
            self
        }
    }
    impl<T: Send> IntoParallelIterator for Vec<T> {
        type Iter = Src<T>;
        type Item = T;
        fn into_par_iter(self) -> Self::Iter {
            Src { v: self, ordered: true }
        }
    }
    impl<'d, T: Sync + 'd> IntoParallelIterator for &'d Vec<T> {
        type Iter = Src<&'d T>;
        type Item = &'d T;
        fn into_par_iter(self) -> Self::Iter {
            Src { v: self.iter().collect(), ordered: true }
        }
    }
    impl<'d, T: Sync + 'd> IntoParallelIterator for &'d [T] {
        type Iter = Src<&'d T>;
        type Item = &'d T;
        fn into_par_iter(self) -> Self::Iter {
            Src { v: self.iter().collect(), ordered: true }
        }
    }
    impl<'d, T: Send + 'd> IntoParallelIterator for &'d mut Vec<T> {
        type Iter = Src<&'d mut T>;
        type Item = &'d mut T;
        fn into_par_iter(self) -> Self::Iter {
            Src { v: self.iter_mut().collect(), ordered: true }
        }
    }
    impl<'d, T: Send + 'd> IntoParallelIterator for &'d mut [T] {
        type Iter = Src<&'d mut T>;
        type Item = &'d mut T;
        fn into_par_iter(self) -> Self::Iter {
            Src { v: self.iter_mut().collect(), ordered: true }
        }
    }
    macro_rules! range_impl {
        ($($t:ty),*) => {$(
            impl IntoParallelIterator for std::ops::Range<$t> {
                type Iter = Src<$t>;
                type Item = $t;
                fn into_par_iter(self) -> Self::Iter {
                    Src { v: self.collect(), ordered: true }
                }
            }
            impl IntoParallelIterator for std::ops::RangeInclusive<$t> {
                type Iter = Src<$t>;
                type Item = $t;
                fn into_par_iter(self) -> Self::Iter {
                    Src { v: self.collect(), ordered: true }
                }
            }
        )*};
    }
    range_impl!(u8, u16, u32, u64, usize, i32, i64);

    pub trait IntoParallelRefIterator<'d> {
        type Iter: ParallelIterator<Item = Self::Item>;
        type Item: Send + 'd;
        fn par_iter(&'d self) -> Self::Iter;
    }
    impl<'d, I: 'd + ?Sized> IntoParallelRefIterator<'d> for I
    where
        &'d I: IntoParallelIterator,
    {
        type Iter = <&'d I as IntoParallelIterator>::Iter;
        type Item = <&'d I as IntoParallelIterator>::Item;
        fn par_iter(&'d self) -> Self::Iter {
            self.into_par_iter()
        }
    }
    pub trait IntoParallelRefMutIterator<'d> {
        type Iter: ParallelIterator<Item = Self::Item>;
        type Item: Send + 'd;
        fn par_iter_mut(&'d mut self) -> Self::Iter;
    }
    impl<'d, I: 'd + ?Sized> IntoParallelRefMutIterator<'d> for I
    where
        &'d mut I: IntoParallelIterator,
    {
        type Iter = <&'d mut I as IntoParallelIterator>::Iter;
        type Item = <&'d mut I as IntoParallelIterator>::Item;
        fn par_iter_mut(&'d mut self) -> Self::Iter {
            self.into_par_iter()
        }
    }

    /// `par_bridge`: items are pulled from the sequential iterator one by one (under a lock in real
    /// rayon), but which worker handles which item, and in which order results appear, is unspecified
    pub trait ParallelBridge: Sized {
        type BridgeItem: Send;
        fn par_bridge(self) -> Src<Self::BridgeItem>;
    }
    impl<I> ParallelBridge for I
    where
        I: Iterator + Send,
        I::Item: Send,
    {
        type BridgeItem = I::Item;
        fn par_bridge(self) -> Src<I::Item> {
            Src { v: self.collect(), ordered: false }
        }
    }
}

pub mod prelude {
    pub use crate::iter::{
        IndexedParallelIterator, IntoParallelIterator, IntoParallelRefIterator, IntoParallelRefMutIterator, ParallelBridge,
        ParallelIterator,
    };
}
